#!/bin/bash
# usage: neg6.sh <negative name>...  -- re-runs, after the round-6 strengthening, the checks most related to each
# behaviour-preserving change (plus C03 / C11 / C18, which gained new oracles) in a sandbox; every run must be silent.
cd /verif
props_for() {
  case "$1" in
    N1-N1|N1-N3|N3-N1|R2N1-N5|R2N3-N2) echo "C01 C03 C11 C05" ;;
    N1-N4|N3-N2|R2N3-N3) echo "C02 C03 C11 C05" ;;
    R2N1-N1|R2N2-N4) echo "C01 C02 C03 C11" ;;
    N1-N5|N2-N3|N2-N4|N3-N5|R2N2-N2|R2N3-N4) echo "C07 C05 C01 C17" ;;
    R2N1-N3) echo "C08 C05 C01 C02" ;;
    N2-N5|R2N2-N5) echo "C17 C16 C05" ;;
    R2N2-N1) echo "C18 C03 C12 C11" ;;
    N1-N2|N3-N4|R2N1-N2|R2N3-N5) echo "C06 C13 C09 C08" ;;
    R2N1-N4) echo "C14 C10 C15" ;;
    N2-N1|N2-N2) echo "C15 C03 C18" ;;
    N3-N3|R2N2-N3|R2N3-N1) echo "C03 C04 C01 C11" ;;
    *) echo "C03 C11 C18" ;;
  esac
}
for n in "$@"; do
  d=negative/$n
  [ -f $d/patch.diff ] || { echo "$n: no patch"; continue; }
  tools/sandbox.sh n6$n $d/patch.diff $d/result_r6.txt $(props_for $n) 2>&1 | grep -v WARNING
  grep -v " rc=0 " $d/result_r6.txt | head -6 | cut -c1-400
done
