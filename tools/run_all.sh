#!/bin/bash
# runs every registered check once (tier from $1, default quick) and prints a one-line summary each
cd /verif
tier=${1:-quick}
for p in C01 C02 C03 C04 C05 C06 C07 C08 C09 C10 C11 C12 C13 C14 C15 C16 C17 C18; do
  s=$(date +%s.%N)
  out=$(VERIF_SEED=${VERIF_SEED:-1} ./check $p --tier $tier 2>/tmp/run_all_$p.err); rc=$?
  e=$(date +%s.%N)
  printf "%s rc=%d %.1fs %s\n" $p $rc $(echo "$e - $s" | bc) "$(echo "$out" | grep -E 'VIOLATION|KNOWN|held' | head -2 | tr '\n' ' ' | cut -c1-160)"
  [ $rc -ne 0 ] && grep -E "^violation|INCONCLUSIVE" /tmp/run_all_$p.err | head -3 | cut -c1-300
done
