#!/bin/bash
# usage: try_mutant.sh <patch.diff> <prop>...   applies the patch to /repo, runs the quick checks, reverts.
patch="$(realpath "$1")"; shift
cd /repo || exit 2
if ! git diff --quiet; then echo "/repo has uncommitted changes"; exit 2; fi
git apply "$patch" || { echo "patch does not apply"; exit 2; }
trap 'git -C /repo checkout -- . ; git -C /repo clean -fdq tests' EXIT
for p in "$@"; do
  out=$(cd /verif && VERIF_SEED=${VERIF_SEED:-1} ./check "$p" --tier ${TIER:-quick} 2>/tmp/try_mutant.err)
  rc=$?
  echo "== $p rc=$rc: $(echo "$out" | grep -E 'VIOLATION|KNOWN|held|INCONCLUSIVE' | head -3 | tr '\n' ' ')"
  if [ $rc -ne 0 ]; then grep -E "^violation|INCONCLUSIVE" /tmp/try_mutant.err | head -3 | cut -c1-400; fi
done
