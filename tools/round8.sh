#!/bin/bash
# usage: round6.sh Cxx   -- verify the two sub-agent outputs of /tmp/mut8/Cxx (A->K, B->L), then run the owning
# property's quick check against each stored change in a sandbox and keep the output as result.txt
id="$1"; cd /verif
tools/verify_seed.sh $id A /tmp/mut8 P 2>&1 | grep -v WARNING
tools/verify_seed.sh $id B /tmp/mut8 Q 2>&1 | grep -v WARNING
for y in P Q; do
  d=seeded/$id-$y
  [ -f $d/patch.diff ] || continue
  [ -f $d/result.txt ] && [ -z "$FORCE" ] && continue
  tools/sandbox.sh r8$id$y $d/patch.diff $d/result.txt $id ${EXTRA_PROPS} 2>&1 | grep -v WARNING
  echo "$id-$y: $(head -c 400 $d/result.txt | tr '\n' ' ')"
done
