#!/usr/bin/env python3
"""fills meta.json.detected_by of the seeded changes from their result files (result.txt, result_Cxx.txt)"""
import json, glob, re, os
for d in sorted(glob.glob('/verif/seeded/C*-[K-Q]')):
    m = json.load(open(d + '/meta.json'))
    det = []
    for rf in sorted(glob.glob(d + '/result*.txt')):
        t = open(rf).read()
        for line in t.splitlines():
            mm = re.match(r'(C\d\d) rc=(\d)', line)
            if mm and mm.group(2) == '1':
                vio = [l for l in t.splitlines() if l.startswith('violation')]
                det.append({"check": mm.group(1) + " quick", "first_violation": (vio[0][10:170] if vio else "")})
    m['detected_by'] = det
    m['round'] = 6 if d[-1] in "KL" else 7 if d[-1] in "MN" else 8
    json.dump(m, open(d + '/meta.json', 'w'), indent=1)
    print(os.path.basename(d), 'detected' if det else 'NOT DETECTED')
