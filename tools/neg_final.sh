#!/bin/bash
# usage: neg_final.sh <name>:<props,comma separated> ...   final pass over negative controls with the finished harness
cd /verif
for spec in "$@"; do
  n=${spec%%:*}; props=$(echo ${spec#*:} | tr ',' ' ')
  tools/sandbox.sh nf$n negative/$n/patch.diff negative/$n/result_final.txt $props 2>&1 | grep -v WARNING
  grep -v " rc=0 " negative/$n/result_final.txt | head -4 | cut -c1-300
done
