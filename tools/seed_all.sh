#!/bin/bash
# verify every sub-agent output not yet stored, then run each stored seed against its own property's check
cd /verif
for d in /tmp/mut/C*/out/*/; do
  [ -f "$d/patch.diff" ] || continue
  id=$(echo $d | cut -d/ -f4); x=$(basename $d)
  [ -d seeded/$id-$x ] || tools/verify_seed.sh $id $x
done
for s in seeded/*/; do
  n=$(basename $s); id=${n%%-*}
  [ -f $s/result.txt ] && [ -z "$FORCE" ] && continue
  grep -q "\"$id\"" MANIFEST.json || { echo "$n: no check for $id yet"; continue; }
  tools/try_mutant.sh $s/patch.diff $id ${EXTRA_PROPS} > $s/result.txt 2>&1
  echo "$n: $(grep -E '^== ' $s/result.txt | tr '\n' ' ' | cut -c1-300)"
done
