#!/bin/bash
# usage: try_neg.sh <dir with patch.diff>  -- applies a behaviour-preserving change and runs ALL quick checks; every one must stay silent
d="$(realpath "$1")"
cd /repo || exit 2
if ! git diff --quiet; then echo "/repo has uncommitted changes"; exit 2; fi
git apply "$d/patch.diff" || { echo "patch does not apply"; exit 2; }
trap 'git -C /repo checkout -- . ; git -C /repo clean -fdq tests' EXIT
CARGO_NET_OFFLINE=true cargo test --workspace --no-fail-fast --offline > /tmp/try_neg.suite 2>&1; echo "suite rc=$?" > "$d/result.txt"
for p in ${PROPS:-C01 C02 C03 C04 C05 C06 C07 C08 C09 C10 C11 C12 C13 C14 C15 C16 C17 C18}; do
  out=$(cd /verif && VERIF_SEED=${VERIF_SEED:-1} ./check "$p" --tier quick 2>/tmp/try_neg.err); rc=$?
  echo "$p rc=$rc $(echo "$out" | grep -E 'VIOLATION|held|KNOWN' | head -2 | tr '\n' ' ' | cut -c1-200)" >> "$d/result.txt"
  if [ $rc -ne 0 ]; then grep -E "^violation|INCONCLUSIVE" /tmp/try_neg.err | head -2 | cut -c1-600 >> "$d/result.txt"; fi
done
echo "$(basename $d): $(grep -c 'rc=0' $d/result.txt) silent of $(grep -c 'rc=' $d/result.txt)"; grep -v "rc=0" "$d/result.txt" | head -8
