#!/bin/bash
# usage: sandbox.sh <name> <patch.diff> <result-file> <prop>...
# Runs the quick checks against a patched scratch copy of the repository, in a scratch copy of /verif whose harness
# depends on that copy by path. Nothing in /repo or /verif is modified; several sandboxes can run in parallel.
name="$1"; patch="$(realpath "$2")"; result="$(realpath -m "$3")"; shift 3
sb=/tmp/sb/$name
rm -rf $sb; mkdir -p $sb
git -C /repo worktree add --detach $sb/repo HEAD -q || exit 2
cp /repo/Cargo.lock $sb/repo/ 2>/dev/null
cleanup() { git -C /repo worktree remove --force $sb/repo 2>/dev/null; rm -rf $sb; git -C /repo worktree prune; }
trap cleanup EXIT
( cd $sb/repo && git apply "$patch" ) || { echo "patch does not apply" > "$result"; exit 2; }
rsync -a --exclude target --exclude .work --exclude .git --exclude 'replays/found' --exclude evidence /verif/ $sb/verif/
sed -i "s|path = \"/repo\"|path = \"$sb/repo\"|" $sb/verif/harness/Cargo.toml
# start from /verif's build output so that only priority-queue and the harness itself are rebuilt
[ -d /verif/target ] && [ -z "$COLD" ] && cp -a --reflink=auto /verif/target $sb/verif/target 2>/dev/null
: > "$result"
for p in "$@"; do
  out=$(cd $sb/verif && VERIF_WORKERS=${VERIF_WORKERS:-16} VERIF_SEED=${VERIF_SEED:-1} ./check "$p" --tier ${TIER:-quick} 2>$sb/err.txt); rc=$?
  echo "$p rc=$rc $(echo "$out" | grep -E 'VIOLATION|held|KNOWN' | head -3 | sed "s|$sb/verif|/verif|g" | tr '\n' ' ' | cut -c1-260)" >> "$result"
  if [ $rc -ne 0 ]; then grep -E "^violation|INCONCLUSIVE" $sb/err.txt | head -3 | cut -c1-500 >> "$result"; fi
done
echo "$name: $(grep -c 'rc=0' "$result") silent / $(grep -c ' rc=1' "$result") alarm / $(grep -c ' rc=2' "$result") inconclusive"
