#!/bin/bash
# usage: verify_seed.sh Cxx X   -- confirms a seeded change in its scratch worktree /tmp/mut/Cxx and, if confirmed,
# stores it as /verif/seeded/Cxx-X/{patch.diff,demo.rs,meta.json}
id="$1"; x="$2"; root="${3:-/tmp/mut}"; y="${4:-$x}"; wt=$root/$id; o=$wt/out/$x
export CARGO_NET_OFFLINE=true
cd $wt || exit 2
git checkout -q -- . ; rm -f tests/demo_*.rs
feat=""; grep -q "serde" $o/demo.rs && feat="--features serde"
python3 -c "import json,sys; sys.exit(0 if '--release' in json.load(open('$o/meta.json')).get('demo_cmd','') else 1)" 2>/dev/null && feat="$feat --release"
cp $o/demo.rs tests/demo_$x.rs
# 1. demo passes on the unchanged tree
cargo test --offline $feat --test demo_$x >/tmp/vs_$id$x.base 2>&1; base=$?
git apply $o/patch.diff || { echo "$id-$x: patch does not apply"; exit 1; }
# 2. existing suite passes with the change (demo excluded)
mv tests/demo_$x.rs /tmp/demo_$id$x.rs
cargo test --workspace --no-fail-fast --offline >/tmp/vs_$id$x.suite 2>&1; suite=$?
npass=$(grep -E "^test result: ok" /tmp/vs_$id$x.suite | awk '{s+=$4} END {print s}')
cargo build --offline --features serde >/dev/null 2>&1; bserde=$?
mv /tmp/demo_$id$x.rs tests/demo_$x.rs
# 3. demo fails with the change
cargo test --offline $feat --test demo_$x >/tmp/vs_$id$x.mut 2>&1; mut=$?
git checkout -q -- . ; rm -f tests/demo_$x.rs
echo "$id-$x: demo on base rc=$base (want 0); suite with change rc=$suite passed=$npass serde-build=$bserde (want 0, 96, 0); demo with change rc=$mut (want !=0)"
if [ $base -eq 0 ] && [ $suite -eq 0 ] && [ $mut -ne 0 ] && [ $bserde -eq 0 ]; then
  d=/verif/seeded/$id-$y; mkdir -p $d; cp $o/patch.diff $o/demo.rs $d/
  python3 - "$o/meta.json" "$d/meta.json" "$id" "$y" "$npass" <<'PY'
import json,sys
src,dst,pid,x,npass=sys.argv[1:]
try: m=json.load(open(src))
except Exception: m={}
out={"property":pid,"variant":x,"summary":m.get("summary",""),"needs":m.get("needs",""),"demo_cmd":m.get("demo_cmd",""),"estimated_random_hit_rate":m.get("estimated_random_hit_rate",""),
 "confirmed_by":"tools/verify_seed.sh in the scratch worktree %s: demo passes on the unchanged tree; with the change the existing suite passes (%s tests incl. doctests) and the demo fails"%(pid,npass),
 "author":"independent sub-agent given only the property text","detected_by":[]}
json.dump(out,open(dst,"w"),indent=1)
PY
  echo "  stored in $d"
else
  echo "  NOT confirmed"
fi
