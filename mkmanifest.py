#!/usr/bin/env python3
"""Regenerates MANIFEST.json from the table below (kept as a script so that it stays consistent)."""
import json, subprocess
hooks_commits = ["39dace2", "8ee40f6"]
P = {
 "C01": ("model-based stateful property testing (proptest histories vs reference map; peek/pop extreme validity + clone-drain after every step)",
         "Generated histories (16 workers, checked and release builds) over the full PriorityQueue alphabet with ties, extremes and targeted arrangements, a large-queue variant (50-1300 elements), a sweep over every queue size up to 600 and light-weight scripts on 4 095-131 073 elements; after every step peek must be a model maximum, every pop/pop_if/peek_mut must address the peeked element, and a clone is drained by pop against the sorted model; a raw heap-order anomaly is turned into a behavioural witness by a battery of continuations. Exploration: no absence claim beyond the cases generated.", "3 C01"),
 "C02": ("model-based stateful property testing (proptest histories on the min-max heap; both-end extreme validity + three drain patterns)",
         "As C01 on DoublePriorityQueue (same size sweep, large-queue variant and huge-queue scripts up to 131 073 elements): peek_min/peek_max validity after every step, pops address the peeked element, and three drains (all-min, all-max, generated interleaving) of a clone are compared with the model's extremes.", "3 C02"),
 "C03": ("model-based stateful property testing (exact return values and full content observation against a map model)",
         "Every return value of push/change_priority/_by/remove/pop*/get* is compared exactly with a BTreeMap model, and len/is_empty/iter/get/get_priority are observed for the whole universe after every step, on small universes that force re-insertion and absent targets.", "3 C03"),
 "C04": ("stateful fuzzing with sanitizing build (debug-assertion std precondition checks, journalled worker processes) + table-consistency invariant",
         "Histories over the whole alphabet incl. capacity ops, partial/leaked drains and leaked iter_mut guards, run in a build where out-of-bounds get_unchecked aborts with a diagnostic; any panic, abort or signal, and any inconsistency of heap/qp/size/map after a public operation is a violation. A second leg repeats in a release build (wrapping arithmetic).", "3 C04"),
 "C05": ("property-based cost testing: a thread-local Ord::cmp counter around every public call, against fixed logarithmic / linear / zero bounds",
         "Generated (size up to 2^16 quick / 2^20 thorough, six priority patterns, target class, new-priority class) measurements on evolving queues of both kinds: peeks/lookups must perform 0 comparisons (peek_max <= 1), single-element operations <= 16*(floor(log2 n)+1)+32, bulk rebuilds <= 8*(n+k)+64. The constants sit 2.7x-5x above the maxima observed on the unchanged tree and far below any linear (resp. n log n) cost at the sizes explored; deterministic, no timing.", "3 C05"),
 "C06": ("property-based testing of sorted consumption (call programs over next/next_back/len against the remaining-model extremes)",
         "States reached by histories are consumed through into_sorted_iter programs (both ends, past exhaustion, via rev) and the sorted-vec forms; each yielded element must be the extreme of what remains, each element exactly once, len() exact.", "3 C06"),
 "C07": ("property-based testing with a metamorphic size_hint relation (same pairs under 16 legal hint modes) + model of first/last-wins semantics",
         "Bulk operations with generated duplication and clashes are checked against the specified contents, followed by a full drain check; every extend/from_iter is repeated on clones under 10 legal size_hint modes (exact, unknown, loose, upper bound up to usize::MAX) and all results must be identical and panic-free.", "3 C07"),
 "C08": ("model-based property testing with logging predicates (retain/retain_mut/iter_mut/pop_if with generated masks and rewrites)",
         "The predicate call log must be a permutation of the content, kept elements and written priorities must be exactly the requested ones, pop_if predicates must see the peeked extreme; a drain check follows each call.", "3 C08"),
 "C09": ("property-based testing of iter_mut call programs (address/identity distinctness of live &mut, exhaustion, len/size_hint)",
         "Generated next/next_back/probe programs on iter_mut and (&mut q).into_iter() with all yielded references kept alive: addresses and ids pairwise distinct, exhaustion yields everything once then None forever, exact len/size_hint where ExactSizeIterator is declared; checked and release builds.", "3 C09"),
 "C10": ("fault-injection fuzzing: panics armed at generated / exhaustively swept callback indices (Ord, Hash, Eq, Clone, closures, feeding iterator) and leaked guards, in a sanitizing build with drop accounting",
         "Generated histories in which operations run with a fuse that panics at the k-th user callback inside the operation (k scaled into the callback count measured on a clone; the thorough tier sweeps every k), iter_mut/drain guards leaked with mem::forget, then generated continuations and a deterministic battery on the survivor. Violations are concrete: an abort from std's unsafe-precondition checks / a signal in a journalled worker process (checked and release builds; the dependencies are built without their own debug assertions, as in production), an instrumented item/priority instance dropped twice or leaked, or a user callback handed a value whose instance was already dropped.", "3 C10"),
 "C11": ("model-based property testing of push_increase/push_decrease over lower/equal/higher offers",
         "Exact return value and full content/order observation after push_increase/push_decrease with offered priorities relative to the stored one (incl. equal, parent's, extremes), targeted by heap position.", "3 C11"),
 "C12": ("model-based property testing over items with a payload ignored by Eq/Hash; owned vs borrowed lookups",
         "Every argument key carries a fresh payload; the model keeps the first inserted payload and explicit payload writes; every observation path must return it. Lookups are issued through &Key and the borrowed &u32 form and must address the same element.", "3 C12"),
 "C13": ("property-based testing of iterator call programs + differential testing of std adaptor compositions against Vec::into_iter",
         "iter/into_iter/drain/sorted iterators are driven by generated next/next_back/len/size_hint programs, and 23 adaptor compositions are compared (sequence, len, size_hint) with the same composition over the plain sequence.", "3 C13"),
 "C14": ("property-based testing of equality over two independently generated routes to the same content + near-miss variants; lock-step clone differential",
         "Two generated histories (different constructors, capacities, hasher types) are equalised to the same content S and must compare equal in both directions (reflexive, symmetric, transitive through a From<Vec>-built third queue), while near-miss variants (one priority, one item, exchanged priorities) must compare unequal; a clone must equal its source, return identical values under a lock-step continuation, and mutating it must leave the source untouched.", "3 C14"),
 "C15": ("round-trip property testing through three serde carriers (as same and other kind) + total deserialization of generated pair sequences",
         "Serialize/deserialize through JSON text, serde_json::Value and a SeqDeserializer, as the same and the other queue kind; the result must equal the original and pass all observations. Arbitrary pair sequences with duplicates must deserialize without panic into a consistent queue or an error.", "3 C15"),
 "C16": ("model-based stateful property testing of drain/clear with consumption programs, leaks, and continuation histories",
         "drain with generated front/back consumption, dropped or forgotten, and clear; the queue must be empty at once and every continuation must behave as on a fresh queue (reference model started from empty).", "3 C16"),
 "C18": ("differential property testing across seven BuildHasher configurations (incl. all-colliding, four-valued and a specialised hash_one) against a shared reference model",
         "The same generated history is executed under RandomState (new()), a fixed hasher, a keyed RandomState via with_hasher, XxHash64 and an all-colliding hasher; each execution is checked against the model and the return-value traces must agree pairwise up to the choice among equal priorities.", "3 C18"),
 "C17": ("model-based stateful property testing with capacity operations interleaved + differential twin without them (exact trace equality); unsatisfiable try_reserve amounts",
         "Capacity ops are invisible to the reference model, so any influence on contents, extraction order or later results is a failure; in addition every history is re-run as a twin without its capacity operations and the two return-value traces must agree item for item, also among equal priorities; capacity() lower bounds are asserted; unsatisfiable try_reserve must return Err without panic and leave the queue unchanged.", "3 C17"),
}
NOT_YET = {
}
# round 6: what was added to each check (appended to the level text; DESIGN.md section 8.1)
ADD = {
 "C01": " Round 6: a position battery on steered queues of 4 094-131 072 elements (operations aimed at level boundaries, the last parent and its lone child; raw anomalies are turned into witnesses by grow-and-drain), neutral operations before and between the steps of the huge-queue scripts, size hints that fall short by the number of clashes, targets biased to the ends of the heap vector and of the slot order.",
 "C02": " Round 6: the position battery and the neutral operations of C01 on the min-max heap.",
 "C03": " Round 6: change_priority is judged on which of two equal priority objects (a stamp ignored by Ord/Eq) it returns and stores, as push already was.",
 "C05": " Round 8: append into a near-empty receiver that has a big queue's room. Round 6: one case in fifty is a long script on 1 023-32 769 elements (thorough 262 145) with a history (construction by pushes, neutral operations, partial iter_mut, append, extend, retain, clone, clear, refill, full drains) in which every public call is bounded.",
 "C06": " Round 6: a sorted-fill sweep (queues filled in descending / ascending / all-equal / run-descending order, every size up to 130 and a sparse set up to 1 100, nine late disturbances near the bottom of the heap, then every form of sorted consumption).",
 "C07": " Round 6: 16 hint modes, incl. lower bounds that fall short by a few and bounds equal to the number of pairs that make the receiver grow.",
 "C11": " Round 6: the position battery of C01/C02 with push_increase / push_decrease on queues of 4 094-131 072 elements.",
 "C14": " Round 8: routes draw from all hasher kinds (== across degenerate and specialised hasher states). Round 6: a near miss replaced in place (same index tables, same length, same first and last slots as the source).",
 "C17": " Round 6: a capacity battery of 7 amounts from 65 537 to 8 388 608 elements through every capacity-taking constructor and every reservation call.",
 "C04": " Round 6/7: operations carried out by a cleanup handler while an unrelated panic unwinds (std::thread::panicking() is true); a drop-glue battery (no value dropped twice under item / priority types with and without drop glue).",
 "C08": " Round 6/7: references taken one at a time from iter_mut (nth, nth_back, rev().nth, find, rfind, a lone next_back) and written while the iterator is alive; operations inside a cleanup handler during an unrelated unwinding; the retain predicate of the huge-queue scripts has a memory and a call log.",
 "C09": " Round 7: iter_mut of queues of 65 535-131 073 elements walked completely from both ends with every reference kept alive.",
 "C10": " Round 7: one case in 6 000 pads the queue to 65 536-262 145 elements and sweeps the Ord::cmp crash points of the deep part of the sift path.",
 "C13": " Round 7: every non-mutable iterator of queues of 65 535-131 073 elements walked completely from both ends with len()/size_hint() probed around 2^16.",
 "C16": " Round 7: drop accounting of clear / drain under item and priority types with and without drop glue; clear / drain with 65 537-4 194 309 elements of capacity behind a handful of elements.",
 "C18": " Round 8: an item-shape battery (the same scripted history under five hashers for item types of 1 to 80 bytes, String, Box); the eq probe compares with the same content held under a partner hasher. Round 6: a sixth configuration, a BuildHasher whose hash_one is specialised differently from its streaming path (as ahash does).",
}
P = {k: (v[0], v[1] + ADD.get(k, ""), v[2]) for k, v in P.items()}
checks = []
for pid, (tech, text, ref) in sorted(P.items()):
    checks.append({
        "property_id": pid,
        "quick_cmd": "./check %s --tier quick" % pid,
        "thorough_cmd": "./check %s --tier thorough" % pid,
        "evidence_file": "/verif/evidence/%s.json" % pid,
        "replay_cmd_template": "./check %s --replay {path}" % pid,
        "engine": "pqv",
        "level_claimed": {"category": "exploration", "text": text, "design_ref": "DESIGN.md section " + ref},
        "level_note": "Trusted: the harness (reference model, oracles), proptest's generators, rustc/std debug-assertion precondition checks, and the read-only snapshot hook. Bounded exploration: absence of violations is shown only for the generated cases.",
        "technique": tech,
    })
m = {
 "version": 1,
 "setup_cmd": "cd /verif/harness && RUSTFLAGS='--cfg priority_queue_verif -Awarnings' CARGO_NET_OFFLINE=true cargo build --offline --target-dir /verif/target && RUSTFLAGS='--cfg priority_queue_verif -Awarnings' CARGO_NET_OFFLINE=true cargo build --offline --release --target-dir /verif/target",
 "hooks": {
   "guard": "--cfg priority_queue_verif",
   "enable": "RUSTFLAGS=\"--cfg priority_queue_verif\" (set by /verif/check for every build of the harness, which depends on /repo by path)",
   "baseline_off_cmd": "cd /repo && cargo test --workspace --no-fail-fast --offline",
   "source_commits": hooks_commits,
   "add_only": True,
 },
 "engines": [{"name": "pqv", "path": "/verif/harness", "serves_properties": sorted(P.keys()), "kind_free_text": "Rust harness: proptest-driven case generation, interpreter with reference model and oracles, 16 journalled worker processes driven by /verif/check (python3)"}],
 "checks": checks,
 "not_applicable": [{"property_id": k, "reason": v} for k, v in sorted(NOT_YET.items())],
 "notes": "VERIF_SEED and VERIF_TIER are honoured. Exit 0 held / 1 VIOLATION / 2 inconclusive. known_findings.jsonl lists the seven repaired defects (status fixed) and the recorded one (status known, F7: C08/C01/C02 print KNOWN-FINDING and exit 0). seeded/ holds 179 confirmed seeded changes (rounds 1-8) with the output of the owning check, negative/ 30 behaviour-preserving changes on which every check must stay silent; tools/sandbox.sh runs checks against a patched scratch copy.",
}
json.dump(m, open("/verif/MANIFEST.json", "w"), indent=1)
print("wrote MANIFEST.json with", len(checks), "checks")
