#![no_main]
//! Structure-aware libFuzzer target: bytes -> Case (pqv::fuzzdec) -> the same interpreter and
//! oracles as the proptest-driven checks. The property under decision comes from PQV_PROP.
use libfuzzer_sys::fuzz_target;

fuzz_target!(|data: &[u8]| {
    pqv::fuzzdec::fuzz_entry(data);
});
