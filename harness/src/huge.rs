//! Light-weight checks on queues beyond the sizes the full interpreter can afford (4 096 ... 131 073
//! elements): thresholds of fast paths and level boundaries that only exist there. The oracle is an
//! ordered-set model with O(log n) extremes; a full drain against the sorted model closes each script.

use std::collections::{BTreeSet, HashMap};

use serde::{Deserialize, Serialize};

use crate::case::Kind;
use crate::interp::Failure;
use crate::oracle::Group;
use crate::queue::*;
use crate::types::*;

#[derive(Clone, Copy, PartialEq, Eq, Debug, Serialize, Deserialize, Hash)]
pub struct HugeCase {
    pub huge: bool,
    pub kind: Kind,
    pub n: usize,
    pub pattern: u8,
    pub seed: u64,
    /// C05: every public call of the script is bounded in priority comparisons
    #[serde(default)]
    pub cost: bool,
    /// bit set of semantically neutral operations run before (and between) the measured ones: what
    /// they leave behind (spare capacity, flags, renumbered slots) must not change any answer
    #[serde(default)]
    pub prelude: u16,
    /// 0: the long mixed script; 1: operations aimed at chosen heap positions (level boundaries, the
    /// last parent and its lone child, first / last node of every level) of a queue whose
    /// arrangement is steered so that the sift paths end at a chosen leaf
    #[serde(default)]
    pub script: u8,
    /// which leaf the sift-down path from the root is steered to (script 1, single-ended queue)
    #[serde(default)]
    pub aim: u8,
}

pub const HUGE_SIZES: [usize; 16] = [4095, 4096, 4097, 4098, 5000, 8191, 8192, 8193, 16384, 16385, 32768, 65535, 65536, 65537, 70001, 131073];

/// sizes of the position battery: around every level boundary from 2^12 to 2^17, even and odd
pub const POSITION_SIZES: [usize; 22] = [4094, 4095, 4096, 4097, 4098, 6000, 8190, 8191, 8192, 8193, 8194, 12001, 16383, 16384, 16386, 32767, 32768, 32770, 65535, 65536, 65538, 131072];

pub fn huge_cases(prop: u8) -> Vec<HugeCase> {
    let kinds: &[Kind] = match prop {
        1 => &[Kind::PQ],
        2 => &[Kind::DPQ],
        3 | 6 | 8 | 9 | 11 | 13 => &[Kind::PQ, Kind::DPQ],
        _ => return vec![],
    };
    let mut v = Vec::new();
    if matches!(prop, 9 | 13) {
        for &kind in kinds {
            for (i, &n) in [300usize, 65_535, 65_536, 65_537, 70_001, 131_073].iter().enumerate() {
                v.push(HugeCase { huge: true, kind, n, pattern: (i % 4) as u8, seed: i as u64, cost: false, prelude: 0, script: 2, aim: 0 });
            }
        }
        return v;
    }
    if matches!(prop, 1 | 2 | 11) {
        for &kind in kinds {
            for (i, &n) in POSITION_SIZES.iter().enumerate() {
                for aim in 0..4u8 {
                    // the double-ended queue is not steered: the aim selects the priority pattern there
                    v.push(HugeCase { huge: true, kind, n, pattern: aim, seed: (i as u64) * 7 + aim as u64, cost: false, prelude: 0, script: 1, aim });
                }
            }
        }
    }
    if prop == 11 {
        return v;
    }
    for &kind in kinds {
        for (i, &n) in HUGE_SIZES.iter().enumerate() {
            for pattern in 0..(if prop == 6 { 4u8 } else { 3u8 }) {
                // C03/C08 visit a third of the grid each run (the seed rotates it)
                v.push(HugeCase { huge: true, kind, n, pattern, seed: (i as u64) * 31 + pattern as u64, cost: false, prelude: ((i as u16) * 37 + pattern as u16 * 11) & 0x3ff, script: 0, aim: 0 });
            }
        }
    }
    if prop == 8 {
        // many moderately large queues: a partial iter_mut with a dozen rewrites followed by a full
        // drain (an incremental re-seating of the visited elements only fails for some arrangements)
        for s in 0..2400u64 {
            v.push(HugeCase { huge: true, kind: if s % 2 == 0 { Kind::DPQ } else { Kind::PQ }, n: 4096 + (s as usize * 37) % 1100, pattern: 2, seed: 1000 + s, cost: false, prelude: 0, script: 0, aim: 0 });
        }
    }
    v
}

struct M {
    by_id: HashMap<u32, i64>,
    set: BTreeSet<(i64, u32)>,
}
impl M {
    fn new() -> M {
        M { by_id: HashMap::new(), set: BTreeSet::new() }
    }
    fn set(&mut self, id: u32, p: i64) -> Option<i64> {
        let old = self.by_id.insert(id, p);
        if let Some(o) = old {
            self.set.remove(&(o, id));
        }
        self.set.insert((p, id));
        old
    }
    fn remove(&mut self, id: u32) -> Option<i64> {
        let old = self.by_id.remove(&id);
        if let Some(o) = old {
            self.set.remove(&(o, id));
        }
        old
    }
    fn max(&self) -> Option<i64> {
        self.set.iter().next_back().map(|x| x.0)
    }
    fn min(&self) -> Option<i64> {
        self.set.iter().next().map(|x| x.0)
    }
    fn len(&self) -> usize {
        self.by_id.len()
    }
}

fn rng(state: &mut u64) -> u64 {
    // splitmix64
    *state = state.wrapping_add(0x9E37_79B9_7F4A_7C15);
    let mut z = *state;
    z = (z ^ (z >> 30)).wrapping_mul(0xBF58_476D_1CE4_E5B9);
    z = (z ^ (z >> 27)).wrapping_mul(0x94D0_49BB_1331_11EB);
    z ^ (z >> 31)
}

fn prio(pattern: u8, i: usize, n: usize) -> i64 {
    match pattern {
        0 => i as i64,
        1 => (n - i) as i64,
        3 => (i % 5) as i64,
        _ => ((i as u64).wrapping_mul(0x9E37_79B9_7F4A_7C15) >> 45) as i64,
    }
}

type R = Result<(), (Group, &'static str, String)>;

thread_local! {
    static COST: std::cell::Cell<bool> = const { std::cell::Cell::new(false) };
}
fn cost_on() -> bool {
    COST.with(|c| c.get())
}
#[derive(Clone, Copy)]
enum CK {
    /// no comparison at all (peek, peek_min, len, lookups)
    Zero,
    /// at most one (peek_max of the double-ended queue)
    One,
    /// A * (floor(log2 n) + 1) + B
    Log,
    /// per-element constant of the heap kind that is rebuilt, times the number of elements
    Linear(usize),
    /// k single-element insertions or one rebuild, whichever the implementation prefers
    Extend(usize, usize),
}
#[inline]
fn cstart() {
    if cost_on() {
        reset_cmp_count();
    }
}
fn cend<Q: Queue>(op: &'static str, n: usize, ck: CK) -> R {
    if !cost_on() {
        return Ok(());
    }
    let got = cmp_count();
    let lg = |n: usize| (usize::BITS - n.max(1).leading_zeros()) as u64;
    let bound = match ck {
        CK::Zero => 0,
        CK::One => 1,
        CK::Log => crate::cost::A * lg(n) + crate::cost::B,
        CK::Linear(t) => (if Q::DOUBLE { crate::cost::C_DPQ } else { crate::cost::C_PQ }) * t as u64 + crate::cost::D,
        CK::Extend(k, total) => crate::cost::A * k as u64 * lg(total) + crate::cost::C * total as u64 + crate::cost::D,
    };
    if got > bound {
        return Err((Group::Cap, op, format!("{} on {} elements performed {} priority comparisons, bound {}", op, n, got, bound)));
    }
    Ok(())
}

/// semantically neutral operations chosen by the bits of `mask`
fn neutral<Q: Queue>(q: &mut Q, mask: u16) -> R {
    let n = q.len();
    if mask & 1 != 0 {
        cstart();
        drop(q.iter_mut());
        cend::<Q>("iter_mut_drop", n, CK::Linear(n))?;
    }
    if mask & 2 != 0 {
        cstart();
        let r = q.pop_max_if(|_, _| false);
        cend::<Q>("pop_if", n, CK::Log)?;
        if r.is_some() {
            return Err((Group::Ret, "pop_if", "pop_if with a rejecting predicate returned an element".into()));
        }
    }
    if mask & 4 != 0 {
        cstart();
        let r = q.try_reserve(usize::MAX / 2);
        cend::<Q>("reserve", n, CK::Zero)?;
        if r.is_ok() {
            return Err((Group::Cap, "reserve", "try_reserve(usize::MAX / 2) succeeded".into()));
        }
    }
    if mask & 8 != 0 {
        cstart();
        q.shrink_to_fit();
        cend::<Q>("shrink_to_fit", n, CK::Zero)?;
    }
    if mask & 16 != 0 {
        let o = std::mem::replace(q, Q::construct(CtorHow::WithDefaultHasher, HasherKind::Xx));
        *q = o.into_other().into_other();
    }
    if mask & 32 != 0 {
        cstart();
        let _ = q.peek_max_mut();
        if Q::DOUBLE {
            let _ = q.peek_min_mut();
        }
        cend::<Q>("peek_mut", n, CK::One)?;
    }
    if mask & 64 != 0 {
        cstart();
        q.reserve(1000);
        cend::<Q>("reserve", n, CK::Zero)?;
    }
    if mask & 128 != 0 {
        cstart();
        q.retain(|_, _| true);
        cend::<Q>("retain", n, CK::Linear(n))?;
    }
    if mask & 256 != 0 && Q::DOUBLE {
        cstart();
        let r = q.pop_min_if(|_, _| false);
        cend::<Q>("pop_if", n, CK::Log)?;
        if r.is_some() {
            return Err((Group::Ret, "pop_if", "pop_min_if with a rejecting predicate returned an element".into()));
        }
    }
    if mask & 512 != 0 {
        // an element is added and taken away again (renumbers nothing, but exercises the tail paths)
        let id = u32::MAX - 5;
        cstart();
        q.push(Key::new(id, 0), Prio::new(i64::MIN + 3));
        cend::<Q>("push", n + 1, CK::Log)?;
        cstart();
        let r = q.remove(&id);
        cend::<Q>("remove", n + 1, CK::Log)?;
        if r.map(|(k, p)| (k.id, p.v)) != Some((id, i64::MIN + 3)) {
            return Err((Group::Ret, "remove", "remove of the element just pushed did not return it".into()));
        }
    }
    Ok(())
}

fn verify<Q: Queue>(q: &Q, m: &M, what: &'static str, st: &mut u64) -> R {
    cstart();
    let l = q.len();
    let e = q.is_empty();
    cend::<Q>("len", l, CK::Zero)?;
    if l != m.len() || e != (m.len() == 0) {
        return Err((Group::Content, what, format!("len()={} is_empty()={} model={}", l, e, m.len())));
    }
    cstart();
    let pm = q.peek_max().map(|(k, p)| (k.id, p.v));
    cend::<Q>(if Q::DOUBLE { "peek_max" } else { "peek" }, l, if Q::DOUBLE { CK::One } else { CK::Zero })?;
    match (pm, m.max()) {
        (None, None) => {}
        (Some((id, p)), Some(mx)) => {
            if m.by_id.get(&id) != Some(&p) {
                return Err((Group::Content, what, format!("peek_max reports ({},{}) model has {:?}", id, p, m.by_id.get(&id))));
            }
            if p != mx {
                return Err((Group::Order, what, format!("peek_max reports priority {} but the maximum of {} stored is {}", p, m.len(), mx)));
            }
        }
        (a, b) => return Err((Group::Order, what, format!("peek_max {:?} model max {:?}", a, b))),
    }
    if Q::DOUBLE {
        cstart();
        let pn = q.peek_min().map(|(k, p)| (k.id, p.v));
        cend::<Q>("peek_min", l, CK::Zero)?;
        match (pn, m.min()) {
            (None, None) => {}
            (Some((_, p)), Some(mn)) => {
                if p != mn {
                    return Err((Group::Order, what, format!("peek_min reports priority {} but the minimum of {} stored is {}", p, m.len(), mn)));
                }
            }
            (a, b) => return Err((Group::Order, what, format!("peek_min {:?} model min {:?}", a, b))),
        }
    }
    // sampled lookups
    for _ in 0..8 {
        let probe = (rng(st) % (2 * m.len().max(1) as u64 + 8)) as u32;
        cstart();
        let got = q.get_priority(&probe).map(|p| p.v);
        let _ = q.get(&probe);
        cend::<Q>("get", l, CK::Zero)?;
        if got != m.by_id.get(&probe).copied() {
            return Err((Group::Content, what, format!("get_priority({}) = {:?}, model {:?}", probe, got, m.by_id.get(&probe))));
        }
    }
    Ok(())
}

fn drain_all<Q: Queue>(q: &Q, m: &M, what: &'static str, st: &mut u64) -> R {
    let mut c = q.clone();
    let mut set = m.set.clone();
    let n = set.len();
    for i in 0..n {
        let take_max = !Q::DOUBLE || rng(st) % 2 == 0;
        cstart();
        let got = if take_max { c.pop_max() } else { c.pop_min() }.map(|(k, p)| (p.v, k.id));
        cend::<Q>("pop", n - i, CK::Log)?;
        let want = if take_max { set.iter().next_back().map(|x| x.0) } else { set.iter().next().map(|x| x.0) };
        match got {
            None => return Err((Group::Order, what, format!("drain: pop #{} returned None with {} left", i, set.len()))),
            Some((p, id)) => {
                if Some(p) != want {
                    return Err((Group::Order, what, format!("drain: pop #{} ({}) returned priority {} but the extreme of the remaining {} is {:?}", i, if take_max { "max" } else { "min" }, p, set.len(), want)));
                }
                if !set.remove(&(p, id)) {
                    return Err((Group::Content, what, format!("drain: pop #{} returned ({},{}) which is not stored", i, id, p)));
                }
            }
        }
    }
    if c.pop_max().is_some() || c.len() != 0 {
        return Err((Group::Content, what, "drained clone is not empty".into()));
    }
    Ok(())
}


/// priorities that already form a max-heap in slot order and whose greater-child path from the
/// root ends at the leaf `x`: 4 per level, plus 2 on the path
fn steered(n: usize, x: usize) -> Vec<i64> {
    let depth = |i: usize| (usize::BITS - 1 - (i + 1).leading_zeros()) as i64;
    let d = depth(n - 1);
    let mut v: Vec<i64> = (0..n).map(|i| 4 * (d - depth(i))).collect();
    let mut a = x;
    loop {
        v[a] += 2;
        if a == 0 {
            break;
        }
        a = (a - 1) / 2;
    }
    v
}

/// grow a clone by more than half its size (below, then above everything stored) and drain it: turns a
/// raw order anomaly near the bottom of the heap into wrong answers of pop
fn grow_and_drain<Q: Queue>(q: &Q, m: &M, op: &'static str, st: &mut u64) -> R {
    for above in [false, true] {
        let mut c = q.clone();
        let mut mm = M { by_id: m.by_id.clone(), set: m.set.clone() };
        let k = m.len() / 2 + 5;
        let lo = m.min().unwrap_or(0);
        let hi = m.max().unwrap_or(0);
        for j in 0..k {
            let id = 3_000_000_000u32 + j as u32;
            let p = if above { hi + 1 + (j % 7) as i64 } else { lo - 1 - (j % 7) as i64 };
            c.push(Key::new(id, 0), Prio::new(p));
            mm.set(id, p);
        }
        verify(&c, &mm, op, st)?;
        drain_all(&c, &mm, op, st)?;
    }
    Ok(())
}

fn run_positions<Q: Queue>(c: &HugeCase, prop: u8) -> R {
    set_default_hb(HasherKind::Xx);
    COST.with(|x| x.set(false));
    let n = c.n;
    let mut st = c.seed ^ 0x9E6C_63D0_676A_9A99;
    let mut m = M::new();
    let aims = [n - 1, (1usize << (usize::BITS - 1 - n.leading_zeros())) - 1, n - 2, (n - 2) / 2 + 1];
    let x = aims[c.aim as usize % 4].min(n - 1);
    let pr: Vec<i64> = if Q::DOUBLE { (0..n).map(|i| prio(c.pattern, i, n)).collect() } else { steered(n, x) };
    let v: Vec<(Key, Prio)> = (0..n).map(|i| (Key::new(i as u32, 0), Prio::new(pr[i]))).collect();
    for (k, p) in v.iter() {
        m.set(k.id, p.v);
    }
    let mut q: Q = Q::from_vec(v);
    verify(&q, &m, "construction", &mut st)?;
    // heap positions worth aiming at
    let mut targets: Vec<usize> = vec![0, 1, 2, 3, 4, 5, 6, n - 1, n - 2, n - 3, (n - 2) / 2, (n - 2) / 2 + 1, (n - 2) / 2 - 1, (n - 1) / 2];
    let mut b = 8usize;
    while b <= n {
        for t in [b - 2, b - 1, b, b + 1, b + b / 2 - 1, b + b / 2] {
            if t < n {
                targets.push(t);
            }
        }
        b *= 2;
    }
    for _ in 0..6 {
        targets.push((rng(&mut st) % n as u64) as usize);
    }
    // the first operation finds the steered arrangement untouched: the root sinks to the aimed leaf
    let single = |prop: u8, up: bool| -> &'static str {
        match (prop, up) {
            (11, true) => "push_increase",
            (11, false) => "push_decrease",
            _ => "change_priority",
        }
    };
    for (round, &t) in targets.iter().enumerate() {
        for up in [false, true] {
            // down first on even rounds, up first on odd ones
            let up = up ^ (round % 2 == 1);
            let snap = q.snapshot();
            let len = snap.entries.len();
            let Some(Some((id, cur))) = snap.entries.get(t.min(len - 1)).copied() else {
                return Err((Group::Tables, "snapshot", "heap position without a stored element".into()));
            };
            let want_p = if up { m.max().unwrap_or(0) + 1 } else { m.min().unwrap_or(0) - 1 };
            let op = single(prop, up);
            let got = match (prop, up) {
                (11, true) => q.push_increase(Key::new(id, 9), Prio::new(want_p)).map(|x| x.v),
                (11, false) => q.push_decrease(Key::new(id, 9), Prio::new(want_p)).map(|x| x.v),
                _ => {
                    if round % 3 == 0 {
                        let mut old = None;
                        let r = q.change_priority_by(&id, |p| {
                            old = Some(p.v);
                            p.v = want_p;
                        });
                        if r { old } else { None }
                    } else {
                        q.change_priority(&id, Prio::new(want_p)).map(|x| x.v)
                    }
                }
            };
            if got != Some(cur) {
                return Err((Group::Ret, op, format!("{} of the element at heap position {} (item {}, priority {}) to {} returned {:?}", op, t, id, cur, want_p, got)));
            }
            m.set(id, want_p);
            verify(&q, &m, op, &mut st)?;
            // the moved element is now the unique extreme
            let ext = if up { q.peek_max().map(|(k, _)| k.id) } else if Q::DOUBLE { q.peek_min().map(|(k, _)| k.id) } else { Some(id) };
            if ext != Some(id) {
                return Err((Group::Order, op, format!("after {} of item {} (heap position {} of {}) to the new {} the queue reports item {:?} there", op, id, t, len, if up { "maximum" } else { "minimum" }, ext)));
            }
            if !crate::oracle::order_ok(&q.snapshot(), Q::DOUBLE) {
                // never an alarm by itself: look for a public call that answers wrongly
                drain_all(&q, &m, op, &mut st)?;
                grow_and_drain(&q, &m, op, &mut st)?;
            }
        }
        if round == 0 || round == 7 {
            grow_and_drain(&q, &m, single(prop, false), &mut st)?;
        }
    }
    drain_all(&q, &m, single(prop, true), &mut st)?;
    grow_and_drain(&q, &m, single(prop, false), &mut st)?;
    Ok(())
}

/// script 2: every iterator of a big queue, fully and from both ends - lengths, size hints and
/// cursors beyond 2^16 (C09: iter_mut; C13: iter, &q, into_iter, drain, sorted)
fn run_iters<Q: Queue>(c: &HugeCase) -> R {
    use std::collections::HashSet;
    set_default_hb(HasherKind::Xx);
    COST.with(|x| x.set(false));
    let n = c.n;
    let mut st = c.seed ^ 0x2545_F491_4F6C_DD1D;
    let v: Vec<(Key, Prio)> = (0..n).map(|i| (Key::new(i as u32, 0), Prio::new(prio(c.pattern, i, n)))).collect();
    let mut q: Q = Q::from_vec(v);
    // a few removals and re-insertions so that the slot order is not the insertion order
    for j in 0..40u32 {
        let id = (rng(&mut st) % n as u64) as u32;
        if let Some((k, p)) = q.remove(&id) {
            if j % 2 == 0 {
                q.push(k, p);
            }
        }
    }
    let n = q.len();
    let ids: HashSet<u32> = q.iter().map(|(k, _)| k.id).collect();
    if ids.len() != n {
        return Err((Group::IterStd, "iter", format!("iter() over {} elements yields {} distinct items", n, ids.len())));
    }
    // generic walk: a few from the front, a few from the back, probes, then the rest; returns what was yielded
    fn walk<T>(
        what: &'static str,
        n: usize,
        exact: bool,
        st: &mut u64,
        mut next: impl FnMut() -> Option<T>,
        mut back: Option<&mut dyn FnMut() -> Option<T>>,
        probe: &dyn Fn() -> (Option<usize>, (usize, Option<usize>)),
        id: impl Fn(&T) -> u32,
    ) -> Result<Vec<u32>, (Group, &'static str, String)> {
        let g = if what == "iter_mut" { Group::IterMutContract } else { Group::IterStd };
        let mut out = Vec::with_capacity(n);
        let mut left = n;
        let check = |left: usize, at: &str| -> Result<(), (Group, &'static str, String)> {
            let (len, (lo, hi)) = probe();
            if let Some(l) = len {
                if l != left {
                    return Err((g, what, format!("{}: len() = {} with {} elements left ({})", what, l, left, at)));
                }
            }
            let ok = if exact { lo == left && hi == Some(left) } else { lo <= left && hi.map_or(true, |h| h >= left) };
            if !ok {
                return Err((g, what, format!("{}: size_hint() = ({}, {:?}) with {} elements left ({})", what, lo, hi, left, at)));
            }
            Ok(())
        };
        check(left, "fresh")?;
        let a = (rng(st) % 300) as usize;
        let b = (rng(st) % 300) as usize;
        for _ in 0..a.min(left) {
            match next() {
                Some(x) => out.push(id(&x)),
                None => return Err((g, what, format!("{}: next() returned None with {} elements left", what, left))),
            }
            left -= 1;
        }
        check(left, "after a prefix")?;
        if let Some(bk) = back.as_mut() {
            for _ in 0..b.min(left) {
                match bk() {
                    Some(x) => out.push(id(&x)),
                    None => return Err((g, what, format!("{}: next_back() returned None with {} elements left", what, left))),
                }
                left -= 1;
            }
            check(left, "after a prefix and a suffix")?;
        }
        let mut i = 0usize;
        while left > 0 {
            let from_back = back.is_some() && i % 5 == 4;
            let r = if from_back { (back.as_mut().unwrap())() } else { next() };
            match r {
                Some(x) => out.push(id(&x)),
                None => return Err((g, what, format!("{}: returned None with {} elements left", what, left))),
            }
            left -= 1;
            i += 1;
            if left == 65_536 || left == 65_535 || left == 256 || left == 255 || left == 1 {
                check(left, "near a power of two")?;
            }
        }
        check(0, "exhausted")?;
        for _ in 0..3 {
            if next().is_some() {
                return Err((g, what, format!("{}: yields an element after exhaustion", what)));
            }
            if let Some(bk) = back.as_mut() {
                if bk().is_some() {
                    return Err((g, what, format!("{}: yields an element from the back after exhaustion", what)));
                }
            }
        }
        Ok(out)
    }
    let judge = |what: &'static str, out: Vec<u32>| -> R {
        let g = if what == "iter_mut" { Group::Alias } else { Group::IterStd };
        if out.len() != n {
            return Err((g, what, format!("{} over {} elements yielded {}", what, n, out.len())));
        }
        let set: HashSet<u32> = out.iter().copied().collect();
        if set.len() != n || set != ids {
            return Err((g, what, format!("{} over {} elements yielded {} distinct items (each must come exactly once)", what, n, set.len())));
        }
        Ok(())
    };
    // iter / &q
    for (what, via_ref) in [("iter", false), ("ref_into_iter", true)] {
        let it = std::cell::RefCell::new(if via_ref { q.ref_into_iter() } else { q.iter() });
        let mut bk = || it.borrow_mut().next_back();
        let out = walk(what, n, true, &mut st, || it.borrow_mut().next(), Some(&mut bk), &|| (Some(it.borrow().len()), it.borrow().size_hint()), |x: &(&Key, &Prio)| x.0.id)?;
        judge(what, out)?;
    }
    // into_iter
    {
        let it = std::cell::RefCell::new(q.clone().into_iter_owned());
        let mut bk = || it.borrow_mut().next_back();
        let out = walk("into_iter", n, true, &mut st, || it.borrow_mut().next(), Some(&mut bk), &|| (Some(it.borrow().len()), it.borrow().size_hint()), |x: &(Key, Prio)| x.0.id)?;
        judge("into_iter", out)?;
    }
    // drain
    {
        let mut c2 = q.clone();
        {
            let it = std::cell::RefCell::new(c2.drain());
            let mut bk = || it.borrow_mut().next_back();
            let out = walk("drain", n, true, &mut st, || it.borrow_mut().next(), Some(&mut bk), &|| (Some(it.borrow().len()), it.borrow().size_hint()), |x: &(Key, Prio)| x.0.id)?;
            judge("drain", out)?;
        }
        if c2.len() != 0 || c2.peek_max().is_some() {
            return Err((Group::Content, "drain", "the queue is not empty after a full drain".into()));
        }
    }
    // iter_mut (both ends where offered), every yielded reference kept alive
    {
        let mut c2 = q.clone();
        {
            let it = std::cell::RefCell::new(c2.iter_mut());
            let kept: std::cell::RefCell<Vec<(&mut Key, &mut Prio)>> = std::cell::RefCell::new(Vec::with_capacity(n));
            let mut next = || {
                it.borrow_mut().next().map(|x| {
                    let id = x.0.id;
                    kept.borrow_mut().push(x);
                    id
                })
            };
            let mut bk = || {
                Q::iter_mut_back(&mut it.borrow_mut()).flatten().map(|x| {
                    let id = x.0.id;
                    kept.borrow_mut().push(x);
                    id
                })
            };
            let out = walk(
                "iter_mut",
                n,
                Q::DOUBLE,
                &mut st,
                &mut next,
                if Q::DOUBLE { Some(&mut bk) } else { None },
                &|| Q::iter_mut_len(&it.borrow()),
                |x: &u32| *x,
            )?;
            judge("iter_mut", out)?;
            let kept = kept.into_inner();
            let mut addrs: Vec<usize> = kept.iter().map(|x| &*x.1 as *const Prio as usize).collect();
            addrs.sort_unstable();
            addrs.dedup();
            if addrs.len() != n {
                return Err((Group::Alias, "iter_mut", format!("iter_mut over {} elements handed out {} distinct priority references", n, addrs.len())));
            }
        }
    }
    // the sorted iterator: exact length where declared, a few steps from either end
    {
        let it = std::cell::RefCell::new(q.clone().into_sorted_iter());
        let (len, (lo, hi)) = Q::sorted_len(&it.borrow());
        if len.map_or(false, |l| l != n) || lo > n || hi.map_or(false, |h| h < n) || (Q::DOUBLE && (lo != n || hi != Some(n))) {
            return Err((Group::IterStd, "sorted_iter", format!("into_sorted_iter over {} elements: len() {:?} size_hint ({}, {:?})", n, len, lo, hi)));
        }
        let mut left = n;
        for j in 0..600usize {
            let r = if Q::DOUBLE && j % 3 == 1 { Q::sorted_back(&mut it.borrow_mut()).flatten() } else { it.borrow_mut().next() };
            if r.is_none() != (left == 0) {
                return Err((Group::IterStd, "sorted_iter", format!("into_sorted_iter: step {} returned {} with {} left", j, if r.is_none() { "None" } else { "an element" }, left)));
            }
            left = left.saturating_sub(1);
            let (len, (lo, hi)) = Q::sorted_len(&it.borrow());
            if len.map_or(false, |l| l != left) || lo > left || hi.map_or(false, |h| h < left) {
                return Err((Group::IterStd, "sorted_iter", format!("into_sorted_iter with {} left: len() {:?} size_hint ({}, {:?})", left, len, lo, hi)));
            }
        }
    }
    Ok(())
}

fn run<Q: Queue>(c: &HugeCase) -> R {
    set_default_hb(HasherKind::Xx);
    let n = c.n;
    let mut st = c.seed ^ 0xD1B5_4A32_D192_ED03;
    let mut m = M::new();
    let v: Vec<(Key, Prio)> = (0..n).map(|i| (Key::new(i as u32, 0), Prio::new(prio(c.pattern, i, n)))).collect();
    for (k, p) in v.iter() {
        m.set(k.id, p.v);
    }
    COST.with(|x| x.set(c.cost));
    let mut q: Q = if c.seed % 2 == 0 {
        cstart();
        let q = Q::from_vec(v);
        cend::<Q>("from_vec", n, CK::Linear(n))?;
        q
    } else {
        let mut q = Q::construct(CtorHow::WithDefaultHasher, HasherKind::Xx);
        for (j, (k, p)) in v.into_iter().enumerate() {
            cstart();
            q.push(k, p);
            cend::<Q>("push", j + 1, CK::Log)?;
        }
        q
    };
    verify(&q, &m, "construction", &mut st)?;
    neutral(&mut q, c.prelude)?;
    verify(&q, &m, "neutral", &mut st)?;
    let mut next_id = (4 * n) as u32;
    // single-element operations across the thresholds
    for step in 0..48u32 {
        let r = rng(&mut st);
        if step % 12 == 7 {
            // one of the neutral operations in between, rotating through the set bits
            neutral(&mut q, c.prelude & (1u16 << ((step / 12 + (c.seed as u32)) % 10)))?;
        }
        let ln = q.len() + 1;
        let id = (r >> 8) as u32 % (n as u32 + 40);
        let p = match (r >> 40) % 6 {
            0 => m.max().unwrap_or(0) + 1,
            1 => m.min().unwrap_or(0) - 1,
            2 => m.max().unwrap_or(0),
            3 => m.min().unwrap_or(0),
            _ => (r >> 20) as i64 % (2 * n as i64 + 3),
        };
        let what: &'static str = match r % 8 {
            0 => {
                cstart();
                let got = q.pop_max().map(|(k, pr)| (pr.v, k.id));
                cend::<Q>("pop", ln, CK::Log)?;
                let want = m.max();
                if got.map(|g| g.0) != want {
                    return Err((Group::Order, "pop", format!("pop/pop_max returned {:?}, the maximum is {:?}", got, want)));
                }
                if let Some((_, gid)) = got {
                    m.remove(gid);
                }
                "pop"
            }
            1 if Q::DOUBLE => {
                cstart();
                let got = q.pop_min().map(|(k, pr)| (pr.v, k.id));
                cend::<Q>("pop", ln, CK::Log)?;
                let want = m.min();
                if got.map(|g| g.0) != want {
                    return Err((Group::Order, "pop", format!("pop_min returned {:?}, the minimum is {:?}", got, want)));
                }
                if let Some((_, gid)) = got {
                    m.remove(gid);
                }
                "pop"
            }
            2 => {
                cstart();
                let got = q.push(Key::new(next_id, 0), Prio::new(p)).map(|x| x.v);
                cend::<Q>("push", ln, CK::Log)?;
                if got.is_some() {
                    return Err((Group::Ret, "push", format!("push of a new item returned {:?}", got)));
                }
                m.set(next_id, p);
                next_id += 1;
                "push"
            }
            3 => {
                cstart();
                let got = q.change_priority(&id, Prio::new(p)).map(|x| x.v);
                cend::<Q>("change_priority", ln, CK::Log)?;
                let want = if m.by_id.contains_key(&id) { m.set(id, p) } else { None };
                if got != want {
                    return Err((Group::Ret, "change_priority", format!("change_priority({},{}) returned {:?}, model {:?}", id, p, got, want)));
                }
                "change_priority"
            }
            4 => {
                cstart();
                let got = q.remove(&id).map(|(k, pr)| (k.id, pr.v));
                cend::<Q>("remove", ln, CK::Log)?;
                let want = m.remove(id).map(|o| (id, o));
                if got != want {
                    return Err((Group::Ret, "remove", format!("remove({}) returned {:?}, model {:?}", id, got, want)));
                }
                "remove"
            }
            5 => {
                let cur = m.by_id.get(&id).copied();
                cstart();
                let got = q.push_increase(Key::new(id, 1), Prio::new(p)).map(|x| x.v);
                cend::<Q>("push_increase", ln, CK::Log)?;
                let want = match cur {
                    None => {
                        m.set(id, p);
                        None
                    }
                    Some(o) if p > o => {
                        m.set(id, p);
                        Some(o)
                    }
                    Some(_) => Some(p),
                };
                if got != want {
                    return Err((Group::Ret, "push_increase", format!("push_increase({},{}) returned {:?}, model {:?}", id, p, got, want)));
                }
                "push_increase"
            }
            6 => {
                let cur = m.by_id.get(&id).copied();
                cstart();
                let got = q.push_decrease(Key::new(id, 1), Prio::new(p)).map(|x| x.v);
                cend::<Q>("push_decrease", ln, CK::Log)?;
                let want = match cur {
                    None => {
                        m.set(id, p);
                        None
                    }
                    Some(o) if p < o => {
                        m.set(id, p);
                        Some(o)
                    }
                    Some(_) => Some(p),
                };
                if got != want {
                    return Err((Group::Ret, "push_decrease", format!("push_decrease({},{}) returned {:?}, model {:?}", id, p, got, want)));
                }
                "push_decrease"
            }
            _ => {
                let mut shown = None;
                let ans = r & 0x100 != 0;
                cstart();
                let got = q.pop_max_if(|k, pr| {
                    shown = Some((k.id, pr.v));
                    pr.v = p;
                    ans
                });
                cend::<Q>("pop_if", ln, CK::Log)?;
                if let Some((sid, sp)) = shown {
                    if Some(sp) != m.max() {
                        return Err((Group::Order, "pop_if", format!("pop_if/pop_max_if showed ({},{}) but the maximum is {:?}", sid, sp, m.max())));
                    }
                    if ans {
                        m.remove(sid);
                        if got.map(|(k, pr)| (k.id, pr.v)) != Some((sid, p)) {
                            return Err((Group::Ret, "pop_if", "pop_if returned something else than the element it showed".into()));
                        }
                    } else {
                        m.set(sid, p);
                    }
                }
                "pop_if"
            }
        };
        verify(&q, &m, what, &mut st)?;
    }
    // partial iter_mut with a few rewrites from the front (and the back)
    {
        let cnt = 6;
        let mut writes = Vec::new();
        let ln = q.len();
        cstart();
        {
            let mut it = q.iter_mut();
            for j in 0..cnt {
                if let Some((k, p)) = it.next() {
                    let np = (rng(&mut st) >> 30) as i64 % (3 * n as i64) - n as i64 / 2 + j;
                    p.v = np;
                    writes.push((k.id, np));
                }
            }
            for j in 0..cnt {
                if let Some(Some((k, p))) = Q::iter_mut_back(&mut it) {
                    let np = (rng(&mut st) >> 30) as i64 % (3 * n as i64) - n as i64 / 2 - j;
                    p.v = np;
                    writes.push((k.id, np));
                }
            }
        }
        cend::<Q>("iter_mut_drop", ln, CK::Linear(ln))?;
        for (id, np) in writes {
            m.set(id, np);
        }
        verify(&q, &m, "iter_mut", &mut st)?;
        drain_all(&q, &m, "iter_mut", &mut st)?;
    }
    // append of a queue that shares items (equal length: the receiver's priorities stay)
    {
        let len = q.len();
        let ids: Vec<u32> = q.iter().map(|(k, _)| k.id).collect();
        let take = match c.seed % 3 {
            0 => len,
            1 => len / 2,
            _ => 37.min(len),
        };
        let mut ov = Vec::with_capacity(take);
        for (j, id) in ids.iter().rev().take(take).enumerate() {
            // half of them clash, half are new
            let oid = if j % 2 == 0 { *id } else { next_id + j as u32 };
            ov.push((Key::new(oid, 5), Prio::new(-(j as i64) - 7)));
        }
        let mut mo: Vec<(u32, i64)> = Vec::new();
        let mut seen = std::collections::HashSet::new();
        for (k, p) in ov.iter() {
            if seen.insert(k.id) {
                mo.push((k.id, p.v));
            }
        }
        next_id += take as u32 + 1;
        let mut other = Q::from_vec(ov);
        let other_longer = other.len() > q.len();
        cstart();
        q.append(&mut other);
        cend::<Q>("append", q.len(), CK::Linear(q.len()))?;
        if other.len() != 0 || other.peek_max().is_some() {
            return Err((Group::Content, "append", "the other queue is not empty after append".into()));
        }
        for (id, p) in mo {
            match m.by_id.get(&id).copied() {
                None => {
                    m.set(id, p);
                }
                Some(rp) => {
                    if other_longer {
                        let got = q.get_priority(&id).map(|x| x.v);
                        if got == Some(p) {
                            m.set(id, p);
                        }
                    } else {
                        let _ = rp;
                    }
                }
            }
        }
        verify(&q, &m, "append", &mut st)?;
        for id in ids.iter().rev().take(24) {
            let got = q.get_priority(id).map(|x| x.v);
            if got != m.by_id.get(id).copied() {
                return Err((Group::Content, "append", format!("after append of an equally long or shorter queue item {} has priority {:?}, the receiver's was {:?}", id, got, m.by_id.get(id))));
            }
        }
    }
    // extend with an exact hint (rebuild strategy) and clashes: the last priority wins
    {
        let k = q.len() / 2 + 3;
        let pairs: Vec<(u32, u32, i64)> = (0..k).map(|j| (((rng(&mut st) >> 16) as u32) % (next_id + 5), 9, (rng(&mut st) >> 40) as i64 % 1000)).collect();
        for &(id, _, p) in pairs.iter() {
            m.set(id, p);
        }
        let before = q.len();
        cstart();
        q.extend_with(crate::interp::hinted(&pairs, crate::case::Hint::Exact));
        cend::<Q>("extend", before, CK::Extend(k, before + k))?;
        verify(&q, &m, "extend", &mut st)?;
    }
    // sorted consumption of the whole (large) queue
    {
        let ids: Vec<u32> = q.clone().into_desc_vec().iter().map(|k| k.id).collect();
        if ids.len() != m.len() {
            return Err((Group::Sorted, "sorted", format!("into_sorted_vec / into_descending_sorted_vec returned {} of {} items", ids.len(), m.len())));
        }
        let mut last = i64::MAX;
        let mut seen = std::collections::HashSet::with_capacity(ids.len());
        for (j, id) in ids.iter().enumerate() {
            let Some(&p) = m.by_id.get(id) else {
                return Err((Group::Sorted, "sorted", format!("sorted vec contains item {} which is not stored", id)));
            };
            if !seen.insert(*id) {
                return Err((Group::Sorted, "sorted", format!("sorted vec contains item {} twice", id)));
            }
            if p > last {
                return Err((Group::Sorted, "sorted", format!("descending sorted vec: element #{} (item {}) has priority {} after {}", j, id, p, last)));
            }
            last = p;
        }
        if let Some(asc) = q.clone().into_asc_vec() {
            let mut last = i64::MIN;
            if asc.len() != m.len() {
                return Err((Group::Sorted, "sorted", format!("into_ascending_sorted_vec returned {} of {} items", asc.len(), m.len())));
            }
            for (j, k) in asc.iter().enumerate() {
                let p = m.by_id.get(&k.id).copied().unwrap_or(i64::MIN);
                if p < last {
                    return Err((Group::Sorted, "sorted", format!("ascending sorted vec: element #{} (item {}) has priority {} after {}", j, k.id, p, last)));
                }
                last = p;
            }
        }
        // the iterator form, a few steps from either end
        let mut it = q.clone().into_sorted_iter();
        let mut set = m.set.clone();
        for j in 0..24 {
            let back = j % 3 == 2;
            let got = if back { Q::sorted_back(&mut it).flatten() } else { it.next() }.map(|(k, p)| (p.v, k.id));
            let want = if Q::DOUBLE {
                if back { set.iter().next_back().map(|x| x.0) } else { set.iter().next().map(|x| x.0) }
            } else {
                if back { continue } else { set.iter().next_back().map(|x| x.0) }
            };
            match got {
                Some((p, id)) => {
                    if Some(p) != want || !set.remove(&(p, id)) {
                        return Err((Group::Sorted, "sorted", format!("into_sorted_iter step {} ({}) yielded ({},{}) but the extreme of the rest is {:?}", j, if back { "next_back" } else { "next" }, id, p, want)));
                    }
                }
                None => {
                    if want.is_some() {
                        return Err((Group::Sorted, "sorted", format!("into_sorted_iter step {} yielded None with {} left", j, set.len())));
                    }
                }
            }
        }
    }
    // retain, clear + refill, clone
    {
        let ln = q.len();
        // a predicate with a memory: it logs what it is shown and keeps two calls out of three, so an
        // implementation that asks twice (a look-ahead pass, a retry) gets other answers the second time
        let mut shown: Vec<(u32, i64)> = Vec::with_capacity(ln);
        cstart();
        if c.seed % 2 == 0 {
            q.retain(|k, p| {
                shown.push((k.id, p.v));
                shown.len() % 3 != 0
            });
        } else {
            q.retain_mut(|k, p| {
                shown.push((k.id, p.v));
                shown.len() % 3 != 0
            });
        }
        cend::<Q>("retain", ln, CK::Linear(ln))?;
        if shown.len() != ln {
            return Err((Group::Pred, "retain", format!("retain / retain_mut on {} elements called the predicate {} times (exactly once per element)", ln, shown.len())));
        }
        let mut seen = std::collections::HashSet::with_capacity(ln);
        for (j, &(id, p)) in shown.iter().enumerate() {
            if !seen.insert(id) {
                return Err((Group::Pred, "retain", format!("retain / retain_mut showed item {} to the predicate twice", id)));
            }
            if m.by_id.get(&id) != Some(&p) {
                return Err((Group::Pred, "retain", format!("retain / retain_mut showed ({},{}) but the stored priority is {:?}", id, p, m.by_id.get(&id))));
            }
            if (j + 1) % 3 == 0 {
                m.remove(id);
            }
        }
        verify(&q, &m, "retain", &mut st)?;
        cstart();
        let c2 = q.clone();
        cend::<Q>("clone", ln, CK::Zero)?;
        if !c2.eq_q(&q) {
            return Err((Group::EqClone, "clone", "clone of a large queue differs from its source".into()));
        }
        drain_all(&c2, &m, "clone", &mut st)?;
        cstart();
        q.clear();
        cend::<Q>("clear", ln, CK::Zero)?;
        m = M::new();
        for j in 0..200u32 {
            let p = (rng(&mut st) >> 40) as i64 % 50;
            cstart();
            q.push(Key::new(j, 0), Prio::new(p));
            cend::<Q>("push", j as usize + 1, CK::Log)?;
            m.set(j, p);
        }
        verify(&q, &m, "clear", &mut st)?;
        drain_all(&q, &m, "clear", &mut st)?;
    }
    Ok(())
}

/// (failure, counted as non-trivial)
thread_local! {
    /// the property on whose behalf the position battery runs (selects the operations it uses)
    pub static HUGE_PROP: std::cell::Cell<u8> = const { std::cell::Cell::new(0) };
}

pub fn huge_verdict(c: &HugeCase) -> Result<(), Failure> {
    let prop = HUGE_PROP.with(|p| p.get());
    let r = match (c.kind, c.script) {
        (Kind::PQ, 0) => run::<PqHb>(c),
        (Kind::DPQ, 0) => run::<DpqHb>(c),
        (Kind::PQ, 2) => run_iters::<PqHb>(c),
        (Kind::DPQ, 2) => run_iters::<DpqHb>(c),
        (Kind::PQ, _) => run_positions::<PqHb>(c, prop),
        (Kind::DPQ, _) => run_positions::<DpqHb>(c, prop),
    };
    r.map_err(|(group, op, detail)| Failure {
        group,
        clause: "huge_queue",
        step: 0,
        op,
        detail: format!("on a queue built from {} elements (pattern {}): {}", c.n, c.pattern, detail),
        kind: if c.kind == Kind::PQ { "PQ" } else { "DPQ" },
    })
}
