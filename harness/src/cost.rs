//! C05: comparison counts. Every public call is bracketed by the thread-local `Ord::cmp` counter.

use std::collections::HashMap;

use proptest::collection::vec;
use proptest::prelude::*;
use serde::{Deserialize, Serialize};

use crate::case::Kind;
use crate::interp::Stats;
use crate::interp::Failure;
use crate::oracle::Group;
use crate::queue::*;
use crate::runner::*;
use crate::special::{run_special, SVerdict};
use crate::types::*;

// Bounds, fixed from the algorithms' worst cases with margin (see DESIGN.md C05); not fitted.
pub const A: u64 = 16; // per level
pub const B: u64 = 32;
pub const C: u64 = 8; // per element, bulk (extend: either strategy)
pub const C_PQ: u64 = 4; // building a binary heap: <= 2 comparisons per element measured/known worst, 2x margin
pub const C_DPQ: u64 = 6; // building a min-max heap: <= 2.95 measured, 2x margin
pub const D: u64 = 64;

#[derive(Clone, Copy, PartialEq, Eq, Debug, Serialize, Deserialize, Hash)]
pub enum COp {
    PushNew,
    PushExisting,
    PushInc,
    PushDec,
    Change,
    ChangeBy,
    Remove,
    PopMax,
    PopMin,
    PopIfTrueMax,
    PopIfTrueMin,
    PopIfFalseMax,
    PopIfFalseMin,
    Peeks,
    Lookups,
}
#[derive(Clone, Copy, PartialEq, Eq, Debug, Serialize, Deserialize, Hash)]
pub enum CBulk {
    None,
    FromVec,
    FromIter,
    /// from an iterator that reports size_hint (0, None)
    FromIterUnknown,
    Append(u8),
    Retain,
    RetainMut,
    IterMutDrop,
    Convert,
    ExtendSmall(u8),
    ExtendLarge,
    Clone,
    Drain,
}
#[derive(Clone, Copy, PartialEq, Eq, Debug, Serialize, Deserialize, Hash)]
pub enum CTarget {
    Root,
    Newest,
    FirstSlot,
    LastSlot,
    Random(u16),
}
#[derive(Clone, Copy, PartialEq, Eq, Debug, Serialize, Deserialize, Hash)]
pub enum CPrio {
    NewMax,
    NewMin,
    Unchanged,
    Median,
    EqRoot,
    Random(i32),
}

#[derive(Clone, PartialEq, Eq, Debug, Serialize, Deserialize, Hash)]
pub struct CostCase {
    /// how the measured queue came to be: 0 From<Vec>; 1 new() + iter_mut dropped on the empty queue +
    /// n pushes; 2 twice as many pushed, half popped, cleared, refilled by pushes; 3 converted from the
    /// other kind; 4 with_capacity + pushes + shrink_to_fit
    #[serde(default)]
    pub prefix: u8,
    pub kind: Kind,
    pub n_exp: u8,
    pub jitter: i8,
    pub pattern: u8,
    pub bulk: CBulk,
    pub steps: Vec<(COp, CTarget, CPrio)>,
    /// instead of the above: a long script on a big queue (huge.rs) in which every public call is
    /// bounded, preceded and interleaved by semantically neutral operations
    #[serde(default)]
    pub script: Option<crate::huge::HugeCase>,
}
impl CostCase {
    pub fn n(&self) -> usize {
        ((1usize << self.n_exp) as i64 + self.jitter as i64).max(1) as usize
    }
    pub fn hash64(&self) -> u64 {
        use std::hash::{Hash, Hasher};
        let mut h = std::collections::hash_map::DefaultHasher::new();
        self.hash(&mut h);
        h.finish()
    }
}

pub fn pattern_prio(pattern: u8, i: usize, n: usize) -> i64 {
    match pattern % 6 {
        0 => i as i64,                              // ascending
        1 => (n - i) as i64,                        // descending
        2 => 7,                                     // constant
        3 => ((i as u64).wrapping_mul(0x9E37_79B9_7F4A_7C15) >> 40) as i64, // pseudo-random
        4 => (i.min(n - i)) as i64,                 // organ pipe
        _ => (i % 2) as i64,                        // two-valued
    }
}

pub fn cost_strategy(thorough: bool) -> BoxedStrategy<CostCase> {
    let max_exp: u8 = if thorough { 20 } else { 16 };
    let op = prop_oneof![
        Just(COp::PushNew),
        Just(COp::PushExisting),
        Just(COp::PushInc),
        Just(COp::PushDec),
        Just(COp::Change),
        Just(COp::ChangeBy),
        Just(COp::Remove),
        Just(COp::PopMax),
        Just(COp::PopMin),
        Just(COp::PopIfTrueMax),
        Just(COp::PopIfTrueMin),
        Just(COp::PopIfFalseMax),
        Just(COp::PopIfFalseMin),
        Just(COp::Peeks),
        Just(COp::Lookups),
    ];
    let target = prop_oneof![
        2 => Just(CTarget::Root),
        2 => Just(CTarget::Newest),
        1 => Just(CTarget::FirstSlot),
        2 => Just(CTarget::LastSlot),
        4 => any::<u16>().prop_map(CTarget::Random),
    ];
    let prio = prop_oneof![
        3 => Just(CPrio::NewMax),
        3 => Just(CPrio::NewMin),
        1 => Just(CPrio::Unchanged),
        2 => Just(CPrio::Median),
        1 => Just(CPrio::EqRoot),
        3 => any::<i32>().prop_map(CPrio::Random),
    ];
    let bulk = prop_oneof![
        10 => Just(CBulk::None),
        1 => Just(CBulk::FromVec),
        1 => Just(CBulk::FromIter),
        1 => Just(CBulk::FromIterUnknown),
        2 => (0u8..12).prop_map(CBulk::Append),
        1 => Just(CBulk::Retain),
        1 => Just(CBulk::RetainMut),
        1 => Just(CBulk::IterMutDrop),
        1 => Just(CBulk::Convert),
        1 => (1u8..40).prop_map(CBulk::ExtendSmall),
        1 => Just(CBulk::ExtendLarge),
        1 => Just(CBulk::Clone),
        1 => Just(CBulk::Drain),
    ];
    let plain = (
        proptest::sample::select(vec![Kind::PQ, Kind::DPQ]),
        // sizes weighted towards the large end, where the bound separates log from linear
        prop_oneof![1 => 2u8..8, 2 => 8u8..12, 4 => 12u8..(max_exp + 1)],
        -1i8..4,
        0u8..6,
        bulk,
        vec((op, target, prio), 1..40),
        prop_oneof![6 => Just(0u8), 1 => Just(1u8), 1 => Just(2u8), 1 => Just(3u8), 1 => Just(4u8)],
    )
        .prop_map(|(kind, n_exp, jitter, pattern, bulk, steps, prefix)| CostCase { prefix, kind, n_exp, jitter, pattern, bulk, steps, script: None });
    let script_sizes: Vec<usize> = if thorough {
        vec![1023, 1024, 1025, 2047, 2048, 2049, 3000, 4095, 4096, 4097, 8191, 8192, 8193, 16384, 20000, 32767, 32768, 32769, 65535, 65536, 65537, 131071, 131072, 131073, 262145]
    } else {
        vec![1023, 1024, 1025, 2047, 2048, 2049, 3000, 4095, 4096, 4097, 8191, 8192, 8193, 16384, 20000, 32767, 32768, 32769]
    };
    let script = (proptest::sample::select(vec![Kind::PQ, Kind::DPQ]), proptest::sample::select(script_sizes), 0u8..4, any::<u64>(), 0u16..1024).prop_map(|(kind, n, pattern, seed, prelude)| CostCase {
        prefix: 0,
        kind,
        n_exp: (usize::BITS - 1 - n.leading_zeros()) as u8,
        jitter: 0,
        pattern,
        bulk: CBulk::None,
        steps: vec![],
        script: Some(crate::huge::HugeCase { huge: true, kind, n, pattern, seed: seed % 1000, cost: true, prelude, script: 0, aim: 0 }),
    });
    prop_oneof![48 => plain, 1 => script].boxed()
}

thread_local! {
    static BASES: std::cell::RefCell<HashMap<(bool, usize, u8, u8), Box<dyn std::any::Any>>> = std::cell::RefCell::new(HashMap::new());
}

fn base_queue<Q: Queue + 'static>(n: usize, pattern: u8, prefix: u8) -> Q {
    // the history-built bases cost n log n to build: keep them to moderate sizes
    let prefix = if n > (1 << 17) { 0 } else { prefix % 5 };
    BASES.with(|b| {
        let mut b = b.borrow_mut();
        // keep the cache small: big queues are expensive to hold
        if b.len() > 24 {
            b.clear();
        }
        let e = b.entry((Q::DOUBLE, n, pattern, prefix)).or_insert_with(|| {
            set_default_hb(HasherKind::Xx);
            let pairs = |tag: u32| -> Vec<(Key, Prio)> { (0..n).map(|i| (Key::new(i as u32, tag), Prio::new(pattern_prio(pattern, i, n)))).collect() };
            let q: Q = match prefix {
                0 => Q::from_vec(pairs(0)),
                1 => {
                    let mut q = Q::construct(CtorHow::WithDefaultHasher, HasherKind::Xx);
                    drop(q.iter_mut());
                    q.retain(|_, _| true);
                    for (k, p) in pairs(0) {
                        q.push(k, p);
                    }
                    q
                }
                2 => {
                    let mut q = Q::construct(CtorHow::WithDefaultHasher, HasherKind::Xx);
                    for i in 0..2 * n {
                        q.push(Key::new((10 * n + i) as u32, 0), Prio::new(i as i64));
                    }
                    for _ in 0..n {
                        q.pop_max();
                    }
                    q.clear();
                    for (k, p) in pairs(0) {
                        q.push(k, p);
                    }
                    q
                }
                3 => <Q::Other as Queue>::from_vec(pairs(0)).into_other(),
                _ => {
                    let mut q = Q::construct(CtorHow::WithCapacityAndDefaultHasher(n / 2), HasherKind::Xx);
                    for (k, p) in pairs(0) {
                        q.push(k, p);
                    }
                    q.shrink_to_fit();
                    q
                }
            };
            Box::new(q)
        });
        e.downcast_ref::<Q>().unwrap().clone()
    })
}

fn log_bound(n: usize) -> u64 {
    let lg = (usize::BITS - n.max(1).leading_zeros()) as u64; // floor(log2 n) + 1
    A * lg + B
}

pub struct Maxima {
    pub worst: HashMap<(bool, &'static str), (u64, u64, usize)>, // (double, op) -> (count, bound, n)
}

fn cost_run<Q: Queue + 'static>(c: &CostCase, stats: &mut Stats, maxima: Option<&mut Maxima>) -> Result<bool, Failure> {
    let n0 = c.n();
    let mut maxima = maxima;
    let fail = |op: &'static str, n: usize, got: u64, bound: u64, what: &str| Failure {
        group: Group::Cap,
        clause: "comparisons_exceed_bound",
        step: 0,
        op,
        detail: format!("{} on {} elements ({}) performed {} priority comparisons, bound {}", op, n, what, got, bound),
        kind: Q::NAME,
    };
    let mut note = |op: &'static str, got: u64, bound: u64, n: usize, maxima: &mut Option<&mut Maxima>| {
        if let Some(m) = maxima.as_mut() {
            let e = m.worst.entry((Q::DOUBLE, op)).or_insert((0, bound, n));
            if got * e.1.max(1) > e.0 * bound.max(1) || e.0 == 0 {
                *e = (got, bound, n);
            }
        }
    };
    set_default_hb(HasherKind::Xx);
    let mut q: Q = base_queue::<Q>(n0, c.pattern, c.prefix);
    let what = format!("pattern {} n={} built by history {}", c.pattern % 6, n0, c.prefix % 5);
    // ---- bulk operation (consumes the working copy)
    if c.bulk != CBulk::None {
        let n = q.len();
        let (name, got, total): (&'static str, u64, usize) = match c.bulk {
            CBulk::FromVec => {
                let v: Vec<(Key, Prio)> = (0..n).map(|i| (Key::new(i as u32, 1), Prio::new(pattern_prio(c.pattern, i, n)))).collect();
                reset_cmp_count();
                let r = Q::from_vec(v);
                let g = cmp_count();
                drop(r);
                ("from_vec", g, n)
            }
            CBulk::FromIter => {
                let v: Vec<(Key, Prio)> = (0..n).map(|i| (Key::new(i as u32, 1), Prio::new(pattern_prio(c.pattern, i, n)))).collect();
                reset_cmp_count();
                let r = Q::from_iterator(v.into_iter());
                let g = cmp_count();
                drop(r);
                ("from_iter", g, n)
            }
            CBulk::FromIterUnknown => {
                // ascending priorities: an element-by-element build would sift every element to the root
                let v: Vec<(u32, u32, i64)> = (0..n).map(|i| (i as u32, 1, i as i64)).collect();
                reset_cmp_count();
                let r = Q::from_iterator(crate::interp::hinted(&v, crate::case::Hint::Unknown));
                let g = cmp_count();
                drop(r);
                ("from_iter", g, n)
            }
            CBulk::Append(k) if k >= 8 => {
                // a receiver that holds a handful of elements but has the room of a big queue (it was big
                // and has been popped down, or it was created with the capacity), and a big donor whose
                // priorities ascend in slot order and dominate
                let m = n.max(8);
                if k % 2 == 0 {
                    while q.len() > 5 {
                        q.pop_max();
                    }
                } else {
                    q = Q::construct(CtorHow::WithCapacityAndDefaultHasher(2 * m + 8), HasherKind::Xx);
                    for i in 0..(k as usize % 7) {
                        q.push(Key::new((9 * m + i) as u32, 0), Prio::new(i as i64));
                    }
                }
                let mut other = Q::from_vec((0..m).map(|i| (Key::new((m + 7 + i) as u32, 2), Prio::new((1 << 30) + i as i64))).collect());
                reset_cmp_count();
                q.append(&mut other);
                let g = cmp_count();
                ("append", g, q.len())
            }
            CBulk::Append(k) => {
                let m = match k % 4 {
                    0 => 1,
                    1 => n / 3 + 1,
                    2 => n,
                    _ => 2 * n + 1,
                };
                // k & 4: the appended priorities dominate the receiver's (ascending across the two queues)
                let off = if k & 4 == 4 { (n as i64) * 2 + (1 << 26) } else { 0 };
                let pat = if k & 4 == 4 { 0 } else { c.pattern + 1 };
                // the dominating variant is disjoint from the receiver, the other overlaps it by half
                let first_id = if k & 4 == 4 { n + 7 } else { n / 2 };
                let mut other = Q::from_vec((0..m).map(|i| (Key::new((first_id + i) as u32, 2), Prio::new(off + pattern_prio(pat, i, m)))).collect());
                reset_cmp_count();
                q.append(&mut other);
                let g = cmp_count();
                // the bound is in terms of the size of the result
                ("append", g, q.len())
            }
            CBulk::Retain => {
                reset_cmp_count();
                q.retain(|k, _| k.id % 3 != 0);
                ("retain", cmp_count(), n)
            }
            CBulk::RetainMut => {
                reset_cmp_count();
                q.retain_mut(|k, p| {
                    p.v = -p.v;
                    k.id % 5 != 0
                });
                ("retain_mut", cmp_count(), n)
            }
            CBulk::IterMutDrop => {
                reset_cmp_count();
                for (k, p) in q.iter_mut() {
                    p.v = (k.id as i64).wrapping_mul(7919) % 1000;
                }
                ("iter_mut_drop", cmp_count(), n)
            }
            CBulk::Convert => {
                reset_cmp_count();
                let o = q.into_other();
                let g = cmp_count();
                q = o.into_other();
                ("convert", g, n)
            }
            CBulk::ExtendSmall(k) => {
                let k = k as usize;
                let v: Vec<(Key, Prio)> = (0..k).map(|i| (Key::new((n + i) as u32, 0), Prio::new(i64::MAX - i as i64))).collect();
                reset_cmp_count();
                q.extend_with(v.into_iter());
                let g = cmp_count();
                // either legal strategy
                let bound = A * (k as u64) * ((usize::BITS - (n + k).max(1).leading_zeros()) as u64) + C * (n + k) as u64 + D;
                note("extend", g, bound, n, &mut maxima);
                if g > bound {
                    return Err(fail("extend", n, g, bound, &what));
                }
                ("", 0, 0)
            }
            CBulk::ExtendLarge => {
                let k = 2 * n + 3;
                let v: Vec<(Key, Prio)> = (0..k).map(|i| (Key::new((n / 2 + i) as u32, 0), Prio::new(pattern_prio(c.pattern + 2, i, k)))).collect();
                reset_cmp_count();
                q.extend_with(v.into_iter());
                let g = cmp_count();
                let bound = A * (k as u64) * ((usize::BITS - (n + k).max(1).leading_zeros()) as u64) + C * (n + k) as u64 + D;
                note("extend", g, bound, n, &mut maxima);
                if g > bound {
                    return Err(fail("extend", n, g, bound, &what));
                }
                ("", 0, 0)
            }
            CBulk::Clone => {
                reset_cmp_count();
                let c2 = q.clone();
                let g = cmp_count();
                drop(c2);
                ("clone", g, 0)
            }
            CBulk::Drain => {
                reset_cmp_count();
                let cnt = q.drain().count();
                let g = cmp_count();
                let _ = cnt;
                ("drain", g, 0)
            }
            CBulk::None => ("", 0, 0),
        };
        if !name.is_empty() {
            // the heap that is (re)built: of the other kind for a conversion
            let builds_double = if name == "convert" { !Q::DOUBLE } else { Q::DOUBLE };
            let cc = if builds_double { C_DPQ } else { C_PQ };
            let bound = if total == 0 { 0 } else { cc * total as u64 + D };
            note(name, got, bound, n, &mut maxima);
            if got > bound {
                return Err(fail(name, n, got, bound, &what));
            }
        }
        stats.hit("cost_bulk");
        if n0 >= 1024 {
            stats.hit("cost_bulk_large");
        }
    }
    // ---- single element operations on an evolving working copy
    let mut next_id = (4 * n0 + 10) as u32;
    let mut newest: u32 = n0.saturating_sub(1) as u32;
    let mut lo: i64 = -10;
    let mut hi: i64 = (n0 as i64) * 2 + (1 << 25);
    for &(op, t, p) in c.steps.iter() {
        let n = q.len();
        if n == 0 {
            q.push(Key::new(next_id, 0), Prio::new(0));
            newest = next_id;
            next_id += 1;
            continue;
        }
        let root = q.peek_max().map(|(k, p)| (k.id, p.v)).unwrap();
        let id = match t {
            CTarget::Root => root.0,
            CTarget::Newest => newest,
            CTarget::FirstSlot => q.iter().next().map(|(k, _)| k.id).unwrap(),
            CTarget::LastSlot => q.iter().next_back().map(|(k, _)| k.id).unwrap(),
            CTarget::Random(f) => {
                let idx = (f as usize * n) >> 16;
                // map slots are contiguous: O(1) access through the double-ended iterator is not
                // available, so sample from the two ends region or by id
                let guess = idx as u32;
                if q.get_priority(&guess).is_some() {
                    guess
                } else {
                    q.iter().nth(idx.min(64)).map(|(k, _)| k.id).unwrap_or(root.0)
                }
            }
        };
        let cur = q.get_priority(&id).map(|p| p.v);
        let pv = match p {
            CPrio::NewMax => {
                hi += 1;
                hi
            }
            CPrio::NewMin => {
                lo -= 1;
                lo
            }
            CPrio::Unchanged => cur.unwrap_or(0),
            CPrio::Median => (n0 / 2) as i64,
            CPrio::EqRoot => root.1,
            CPrio::Random(r) => r as i64,
        };
        let bound = log_bound(n);
        reset_cmp_count();
        let name: &'static str = match op {
            COp::PushNew => {
                q.push(Key::new(next_id, 0), Prio::new(pv));
                newest = next_id;
                next_id += 1;
                "push"
            }
            COp::PushExisting => {
                q.push(Key::new(id, 9), Prio::new(pv));
                "push_existing"
            }
            COp::PushInc => {
                q.push_increase(Key::new(id, 9), Prio::new(pv));
                "push_increase"
            }
            COp::PushDec => {
                q.push_decrease(Key::new(id, 9), Prio::new(pv));
                "push_decrease"
            }
            COp::Change => {
                q.change_priority(&id, Prio::new(pv));
                "change_priority"
            }
            COp::ChangeBy => {
                q.change_priority_by(&id, |x| x.v = pv);
                "change_priority_by"
            }
            COp::Remove => {
                q.remove(&id);
                "remove"
            }
            COp::PopMax => {
                q.pop_max();
                "pop_max"
            }
            COp::PopMin => {
                if !Q::DOUBLE {
                    continue;
                }
                q.pop_min();
                "pop_min"
            }
            COp::PopIfTrueMax => {
                q.pop_max_if(|_, x| {
                    x.v = pv;
                    true
                });
                "pop_if_true"
            }
            COp::PopIfTrueMin => {
                if !Q::DOUBLE {
                    continue;
                }
                q.pop_min_if(|_, x| {
                    x.v = pv;
                    true
                });
                "pop_min_if_true"
            }
            COp::PopIfFalseMax => {
                q.pop_max_if(|_, x| {
                    x.v = pv;
                    false
                });
                "pop_if_false"
            }
            COp::PopIfFalseMin => {
                if !Q::DOUBLE {
                    continue;
                }
                q.pop_min_if(|_, x| {
                    x.v = pv;
                    false
                });
                "pop_min_if_false"
            }
            COp::Peeks => {
                // zero-comparison group
                let _ = q.len();
                let _ = q.is_empty();
                let _ = q.capacity();
                let _ = q.peek_min();
                let _ = q.peek_min_mut();
                if !Q::DOUBLE {
                    let _ = q.peek_max();
                    let _ = q.peek_max_mut();
                }
                let g0 = cmp_count();
                note("peek_group_zero", g0, 0, n, &mut maxima);
                if g0 > 0 {
                    return Err(fail("peek/peek_min/len", n, g0, 0, &what));
                }
                if Q::DOUBLE {
                    reset_cmp_count();
                    let _ = q.peek_max();
                    let g1 = cmp_count();
                    reset_cmp_count();
                    let _ = q.peek_max_mut();
                    let g2 = cmp_count();
                    note("peek_max", g1.max(g2), 1, n, &mut maxima);
                    if g1 > 1 || g2 > 1 {
                        return Err(fail("peek_max", n, g1.max(g2), 1, &what));
                    }
                }
                stats.hit("cost_peek");
                continue;
            }
            COp::Lookups => {
                let _ = q.get(&id);
                let _ = q.get_priority(&id);
                let _ = q.get_mut(&id);
                let _ = q.get(&Key::new(id, 3));
                let _ = q.iter().next();
                let g0 = cmp_count();
                note("lookup_group_zero", g0, 0, n, &mut maxima);
                if g0 > 0 {
                    return Err(fail("get/get_priority/get_mut", n, g0, 0, &what));
                }
                stats.hit("cost_peek");
                continue;
            }
        };
        let got = cmp_count();
        note(name, got, bound, n, &mut maxima);
        if got > bound {
            return Err(fail(name, n, got, bound, &format!("{} target {:?} priority {:?}", what, t, p)));
        }
        stats.hit("cost_single");
        if n >= 1024 {
            stats.hit("cost_single_large");
        }
    }
    stats.max_size = n0;
    Ok(n0 >= 1024 || stats.n("cost_peek") > 0 && n0 >= 2)
}

pub fn cost_verdict(c: &CostCase, stats: &mut Stats) -> SVerdict {
    disarm_fuse();
    if let Some(h) = c.script.as_ref() {
        let r = std::panic::catch_unwind(std::panic::AssertUnwindSafe(|| crate::huge::huge_verdict(h)));
        return match r {
            Ok(Ok(())) => {
                stats.hit("cost_script");
                stats.hit("cost_single_large");
                stats.hit("cost_bulk_large");
                stats.max_size = h.n;
                SVerdict::Pass(true)
            }
            // only the comparison counts are this property's business; any other failure of the
            // script belongs to C01-C03/C06/C08 and is reported by their runs of the same scripts
            Ok(Err(f)) if f.group == Group::Cap && f.detail.contains("priority comparisons") => SVerdict::Fail(f),
            Ok(Err(_)) => {
                stats.hit("cost_script_foreign_failure");
                SVerdict::Pass(false)
            }
            Err(_) => {
                let (msg, loc) = last_panic();
                if crate::runner::is_harness_location(&loc) {
                    SVerdict::HarnessBug(format!("{} @ {}", msg, loc))
                } else {
                    stats.hit("cost_script_foreign_failure");
                    SVerdict::Pass(false)
                }
            }
        };
    }
    let r = std::panic::catch_unwind(std::panic::AssertUnwindSafe(|| match c.kind {
        Kind::PQ => cost_run::<PqHb>(c, stats, None),
        Kind::DPQ => cost_run::<DpqHb>(c, stats, None),
    }));
    match r {
        Ok(Ok(nt)) => SVerdict::Pass(nt),
        Ok(Err(f)) => SVerdict::Fail(f),
        Err(_) => {
            let (msg, loc) = last_panic();
            SVerdict::HarnessBug(format!("{} @ {}", msg, loc))
        }
    }
}

pub fn run_c05(a: &WorkerArgs) -> WorkerReport {
    run_special(a, cost_strategy(a.thorough), cost_verdict, |c: &CostCase| c.hash64(), |c: &CostCase| if c.n_exp <= 6 { c.steps.len() } else { 1000 })
}

/// development aid: print the observed maxima against the bounds
pub fn calibrate(cases: u32, thorough: bool) {
    use proptest::strategy::ValueTree;
    use proptest::test_runner::{Config, RngAlgorithm, TestRng, TestRunner};
    let mut runner = TestRunner::new_with_rng(Config::default(), TestRng::from_seed(RngAlgorithm::ChaCha, &mix_seed(7, 5, 0, 0)));
    let strat = cost_strategy(thorough);
    let mut m = Maxima { worst: HashMap::new() };
    for _ in 0..cases {
        let c = strat.new_tree(&mut runner).unwrap().current();
        let mut st = Stats::default();
        let r = match c.kind {
            Kind::PQ => cost_run::<PqHb>(&c, &mut st, Some(&mut m)),
            Kind::DPQ => cost_run::<DpqHb>(&c, &mut st, Some(&mut m)),
        };
        if let Err(f) = r {
            println!("EXCEEDED: {}", f.detail);
        }
    }
    let mut v: Vec<_> = m.worst.into_iter().collect();
    v.sort();
    for ((d, op), (got, bound, n)) in v {
        let op = format!("{}:{}", if d { "DPQ" } else { "PQ" }, op);
        println!("{:28} worst {:>10} of bound {:>10} at n={:>8}  ratio {:.3}", op, got, bound, n, got as f64 / bound.max(1) as f64);
    }
}

pub fn replay_c05(text: &str) -> Result<Option<Failure>, String> {
    let c: CostCase = serde_json::from_str(text).map_err(|e| format!("cannot parse case: {}", e))?;
    let mut st = Stats::default();
    match cost_verdict(&c, &mut st) {
        SVerdict::Pass(_) => Ok(None),
        SVerdict::Fail(f) => Ok(Some(f)),
        SVerdict::HarnessBug(m) => Err(m),
    }
}
