//! Instrumented item / priority types and hashers used by every check.
//!
//! `Key { id, tag }`: Eq/Hash/Borrow<u32> use `id` only, `tag` is a payload ignored by equality.
//! `Prio(i64)`: total order; every `Ord::cmp` is counted; can be armed to panic (fault injection).
//! Both register every instance in a thread-local live table when tracking is on, so leaks and
//! double drops are observable without the check itself being UB (the types own no pointers).

use std::borrow::Borrow;
use std::cell::{Cell, RefCell};
use std::cmp::Ordering;
use std::collections::HashMap;
use std::hash::{BuildHasher, Hash, Hasher};

use serde::{Deserialize, Serialize};

// ---------------------------------------------------------------------------------------------
// thread-local instrumentation

#[derive(Clone, Copy, PartialEq, Eq, Debug, Serialize, Deserialize, Hash, PartialOrd, Ord)]
pub enum FaultKind {
    Cmp,
    Hash,
    Eq,
    CloneKey,
    ClonePrio,
    Callback,
    Feed,
}

pub const FAULT_KINDS: [FaultKind; 7] = [
    FaultKind::Cmp,
    FaultKind::Hash,
    FaultKind::Eq,
    FaultKind::CloneKey,
    FaultKind::ClonePrio,
    FaultKind::Callback,
    FaultKind::Feed,
];

thread_local! {
    static CMP_COUNT: Cell<u64> = const { Cell::new(0) };
    static EQ_COUNT: Cell<u64> = const { Cell::new(0) };
    // (armed kind as u8+1 or 0, remaining ticks before the panic)
    static FUSE: Cell<(u8, u32)> = const { Cell::new((0, 0)) };
    static FUSE_FIRED: Cell<bool> = const { Cell::new(false) };
    // ticks per kind seen since last reset (used to enumerate crash points)
    static TICKS: Cell<[u32; 7]> = const { Cell::new([0; 7]) };
    static COUNT_TICKS: Cell<bool> = const { Cell::new(false) };
    static TRACK: Cell<bool> = const { Cell::new(false) };
    static NEXT_INST: Cell<u64> = const { Cell::new(1) };
    static LIVE: RefCell<HashMap<u64, u8>> = RefCell::new(HashMap::new());
    static DOUBLE_DROPS: Cell<u64> = const { Cell::new(0) };
    static DEAD_USES: Cell<u64> = const { Cell::new(0) };
}

pub const FUSE_MSG: &str = "pqv-injected-fault";

#[inline]
pub fn cmp_count() -> u64 {
    CMP_COUNT.with(|c| c.get())
}
#[inline]
pub fn reset_cmp_count() {
    CMP_COUNT.with(|c| c.set(0));
}
pub fn eq_count() -> u64 {
    EQ_COUNT.with(|c| c.get())
}

/// Arm the fuse: the `k`-th (0-based) tick of `kind` from now panics.
pub fn arm_fuse(kind: FaultKind, k: u32) {
    FUSE_FIRED.with(|f| f.set(false));
    FUSE.with(|f| f.set((kind as u8 + 1, k)));
}
pub fn disarm_fuse() -> bool {
    FUSE.with(|f| f.set((0, 0)));
    FUSE_FIRED.with(|f| f.replace(false))
}
pub fn fuse_armed() -> bool {
    FUSE.with(|f| f.get().0 != 0)
}
pub fn start_tick_count() {
    TICKS.with(|t| t.set([0; 7]));
    COUNT_TICKS.with(|c| c.set(true));
}
pub fn stop_tick_count() -> [u32; 7] {
    COUNT_TICKS.with(|c| c.set(false));
    TICKS.with(|t| t.get())
}

#[inline]
pub fn tick(kind: FaultKind) {
    if COUNT_TICKS.with(|c| c.get()) {
        TICKS.with(|t| {
            let mut a = t.get();
            a[kind as usize] += 1;
            t.set(a);
        });
    }
    let (armed, rem) = FUSE.with(|f| f.get());
    if armed == kind as u8 + 1 {
        if rem == 0 {
            FUSE.with(|f| f.set((0, 0)));
            FUSE_FIRED.with(|f| f.set(true));
            std::panic::panic_any(FUSE_MSG);
        } else {
            FUSE.with(|f| f.set((armed, rem - 1)));
        }
    }
}

pub fn set_tracking(on: bool) {
    TRACK.with(|t| t.set(on));
    DEAD_USES.with(|d| d.set(0));
    LIVE.with(|l| l.borrow_mut().clear());
    DOUBLE_DROPS.with(|d| d.set(0));
}
pub fn tracking() -> bool {
    TRACK.with(|t| t.get())
}
/// (live instances, double drops)
pub fn tracking_report() -> (usize, u64) {
    (LIVE.with(|l| l.borrow().len()), DOUBLE_DROPS.with(|d| d.get()))
}
/// how often a user callback (cmp / hash / eq) was handed a value whose instance had already been
/// dropped (a read of stale memory: use after move/drop)
pub fn dead_uses() -> u64 {
    DEAD_USES.with(|d| d.get())
}
#[inline]
fn check_alive(inst: u64) {
    if inst != 0 && TRACK.with(|t| t.get()) {
        let alive = LIVE.try_with(|l| l.borrow().contains_key(&inst)).unwrap_or(true);
        if !alive {
            DEAD_USES.with(|d| d.set(d.get() + 1));
        }
    }
}
pub fn live_instances() -> Vec<u64> {
    LIVE.with(|l| l.borrow().keys().copied().collect())
}

#[inline]
fn new_inst(what: u8) -> u64 {
    if !TRACK.with(|t| t.get()) {
        return 0;
    }
    let id = NEXT_INST.with(|n| {
        let v = n.get();
        n.set(v + 1);
        v
    });
    LIVE.with(|l| l.borrow_mut().insert(id, what));
    id
}
#[inline]
fn drop_inst(id: u64) {
    if id == 0 {
        return;
    }
    // the table may already be gone during thread teardown
    let _ = LIVE.try_with(|l| {
        if l.borrow_mut().remove(&id).is_none() && TRACK.with(|t| t.get()) {
            DOUBLE_DROPS.with(|d| d.set(d.get() + 1));
        }
    });
}

// ---------------------------------------------------------------------------------------------
// Key

#[derive(Debug)]
pub struct Key {
    pub id: u32,
    pub tag: u32,
    inst: u64,
}

impl Key {
    #[inline]
    pub fn new(id: u32, tag: u32) -> Key {
        Key {
            id,
            tag,
            inst: new_inst(1),
        }
    }
    pub fn inst(&self) -> u64 {
        self.inst
    }
}
impl Clone for Key {
    fn clone(&self) -> Key {
        tick(FaultKind::CloneKey);
        Key::new(self.id, self.tag)
    }
}
impl Drop for Key {
    #[inline]
    fn drop(&mut self) {
        drop_inst(self.inst);
    }
}
impl PartialEq for Key {
    #[inline]
    fn eq(&self, o: &Key) -> bool {
        check_alive(self.inst);
        check_alive(o.inst);
        tick(FaultKind::Eq);
        self.id == o.id
    }
}
impl Eq for Key {}
impl Hash for Key {
    #[inline]
    fn hash<H: Hasher>(&self, state: &mut H) {
        check_alive(self.inst);
        tick(FaultKind::Hash);
        self.id.hash(state)
    }
}
/// Borrowed lookup form: `u32` hashes and compares exactly like `Key` (id only).
impl Borrow<u32> for Key {
    #[inline]
    fn borrow(&self) -> &u32 {
        &self.id
    }
}
impl Serialize for Key {
    fn serialize<S: serde::Serializer>(&self, s: S) -> Result<S::Ok, S::Error> {
        (self.id, self.tag).serialize(s)
    }
}
impl<'de> Deserialize<'de> for Key {
    fn deserialize<D: serde::Deserializer<'de>>(d: D) -> Result<Key, D::Error> {
        let (id, tag) = <(u32, u32)>::deserialize(d)?;
        Ok(Key::new(id, tag))
    }
}

// ---------------------------------------------------------------------------------------------
// Prio

#[derive(Debug)]
pub struct Prio {
    pub v: i64,
    /// a field ignored by Ord / Eq (the analogue of Key::tag): tells *which* of two equal
    /// priorities an operation stored or returned
    pub stamp: u32,
    inst: u64,
}
impl Prio {
    #[inline]
    pub fn new(v: i64) -> Prio {
        Prio {
            v,
            stamp: 0,
            inst: new_inst(2),
        }
    }
    #[inline]
    pub fn stamped(v: i64, stamp: u32) -> Prio {
        Prio {
            v,
            stamp,
            inst: new_inst(2),
        }
    }
    pub fn inst(&self) -> u64 {
        self.inst
    }
}
impl Clone for Prio {
    fn clone(&self) -> Prio {
        tick(FaultKind::ClonePrio);
        Prio::stamped(self.v, self.stamp)
    }
}
impl Drop for Prio {
    #[inline]
    fn drop(&mut self) {
        drop_inst(self.inst);
    }
}
impl PartialEq for Prio {
    #[inline]
    fn eq(&self, o: &Prio) -> bool {
        EQ_COUNT.with(|c| c.set(c.get() + 1));
        self.v == o.v
    }
}
impl Eq for Prio {}
impl PartialOrd for Prio {
    #[inline]
    fn partial_cmp(&self, o: &Prio) -> Option<Ordering> {
        Some(self.cmp(o))
    }
}
impl Ord for Prio {
    #[inline]
    fn cmp(&self, o: &Prio) -> Ordering {
        CMP_COUNT.with(|c| c.set(c.get() + 1));
        check_alive(self.inst);
        check_alive(o.inst);
        tick(FaultKind::Cmp);
        self.v.cmp(&o.v)
    }
}
impl Serialize for Prio {
    fn serialize<S: serde::Serializer>(&self, s: S) -> Result<S::Ok, S::Error> {
        self.v.serialize(s)
    }
}
impl<'de> Deserialize<'de> for Prio {
    fn deserialize<D: serde::Deserializer<'de>>(d: D) -> Result<Prio, D::Error> {
        Ok(Prio::new(i64::deserialize(d)?))
    }
}

// ---------------------------------------------------------------------------------------------
// Hashers

#[derive(Clone, Copy, PartialEq, Eq, Debug, Serialize, Deserialize, Hash, PartialOrd, Ord)]
pub enum HasherKind {
    /// the crate's default `RandomState` through `new()` / `with_capacity()`
    Random,
    /// `BuildHasherDefault<DefaultHasher>`-like fixed SipHash
    Fixed,
    /// twox-hash XxHash64 (the no_std friendly hasher of test-nostd)
    Xx,
    /// every item hashes to 0
    Colliding,
    /// a `RandomState` instance handed in through `with_hasher`
    Keyed,
    /// only four distinct hash values (id % 4): partial collisions
    Coarse,
    /// a hasher that specialises `BuildHasher::hash_one` (as ahash does): hashing a value in one
    /// shot gives another number than streaming it through `build_hasher()`; a table is only
    /// consistent if every lookup and insertion goes through the same entry point
    OneShot,
}

pub const HASHER_KINDS: [HasherKind; 7] = [
    HasherKind::OneShot,
    HasherKind::Coarse,
    HasherKind::Random,
    HasherKind::Fixed,
    HasherKind::Xx,
    HasherKind::Colliding,
    HasherKind::Keyed,
];

thread_local! {
    static DEFAULT_HB: Cell<HasherKind> = const { Cell::new(HasherKind::Fixed) };
}
/// selects what `HB::default()` builds (used by constructors that take `H: Default`)
pub fn set_default_hb(k: HasherKind) {
    DEFAULT_HB.with(|d| d.set(k));
}

/// A run-time selectable `BuildHasher`.
#[derive(Clone, Debug)]
pub enum HB {
    Fixed,
    Xx(u64),
    Colliding,
    Coarse,
    OneShot,
    #[cfg(feature = "std")]
    Keyed(std::collections::hash_map::RandomState),
}
impl HB {
    pub fn of(k: HasherKind) -> HB {
        match k {
            HasherKind::Fixed => HB::Fixed,
            HasherKind::Xx => HB::Xx(0x9e37_79b9),
            HasherKind::Colliding => HB::Colliding,
            HasherKind::Coarse => HB::Coarse,
            HasherKind::OneShot => HB::OneShot,
            #[cfg(feature = "std")]
            HasherKind::Keyed | HasherKind::Random => {
                HB::Keyed(std::collections::hash_map::RandomState::new())
            }
            #[cfg(not(feature = "std"))]
            _ => HB::Xx(7),
        }
    }
}
impl Default for HB {
    fn default() -> HB {
        HB::of(DEFAULT_HB.with(|d| d.get()))
    }
}
pub enum HH {
    #[cfg(feature = "std")]
    Sip(std::collections::hash_map::DefaultHasher),
    Xx(twox_hash::XxHash64),
    Zero,
    /// sums the written bytes, finishes modulo 4
    Mod4(u64),
}
impl Hasher for HH {
    #[inline]
    fn finish(&self) -> u64 {
        match self {
            #[cfg(feature = "std")]
            HH::Sip(h) => h.finish(),
            HH::Xx(h) => h.finish(),
            HH::Zero => 0,
            HH::Mod4(x) => x % 4,
        }
    }
    #[inline]
    fn write(&mut self, b: &[u8]) {
        match self {
            #[cfg(feature = "std")]
            HH::Sip(h) => h.write(b),
            HH::Xx(h) => h.write(b),
            HH::Zero => {}
            HH::Mod4(x) => {
                for (i, c) in b.iter().enumerate() {
                    *x = x.wrapping_add((*c as u64) << (8 * (i % 4)));
                }
            }
        }
    }
}
impl BuildHasher for HB {
    type Hasher = HH;
    #[inline]
    fn build_hasher(&self) -> HH {
        match self {
            #[cfg(feature = "std")]
            HB::Fixed => HH::Sip(std::collections::hash_map::DefaultHasher::new()),
            #[cfg(not(feature = "std"))]
            HB::Fixed => HH::Xx(twox_hash::XxHash64::with_seed(0)),
            HB::Xx(s) => HH::Xx(twox_hash::XxHash64::with_seed(*s)),
            HB::Colliding => HH::Zero,
            HB::Coarse => HH::Mod4(0),
            HB::OneShot => HH::Xx(twox_hash::XxHash64::with_seed(0x51)),
            #[cfg(feature = "std")]
            HB::Keyed(r) => HH::Sip(r.build_hasher()),
        }
    }
    #[inline]
    fn hash_one<T: Hash>(&self, x: T) -> u64 {
        let mut h = self.build_hasher();
        x.hash(&mut h);
        let v = h.finish();
        match self {
            // the specialised one-shot path: a different, equally good hash function
            HB::OneShot => (v ^ 0xA5A5_5A5A_C3C3_3C3C).rotate_left(29).wrapping_mul(0x9E37_79B9_7F4A_7C15),
            _ => v,
        }
    }
}
