//! The interpreter: runs a Case against a real queue and the reference model, one oracle pass after
//! every step. Op implementations live in ops_basic.rs / ops_iter.rs / ops_bulk.rs.

use std::cell::Cell;
use std::collections::BTreeMap;

use crate::case::*;
use crate::model::Model;
use crate::oracle::*;
use crate::queue::*;
use crate::types::*;

#[derive(Clone, Debug)]
pub struct Failure {
    pub group: Group,
    pub clause: &'static str,
    pub step: i32,
    pub op: &'static str,
    pub detail: String,
    pub kind: &'static str,
}

impl Failure {
    pub fn signature(&self) -> String {
        format!("{}/{}/{:?}.{}", self.kind, self.op, self.group, self.clause)
    }
}

#[derive(Debug)]
pub enum Outcome {
    Pass,
    /// a clause owned by the property under decision failed
    Fail(Failure),
    /// some other clause failed: the case is stopped and counted, no alarm
    Foreign(Failure),
}

#[derive(Clone, Debug, Default)]
pub struct Stats {
    pub ev: BTreeMap<&'static str, u32>,
    pub max_size: usize,
    pub steps: u32,
}
impl Stats {
    #[inline]
    pub fn hit(&mut self, e: &'static str) {
        *self.ev.entry(e).or_insert(0) += 1;
    }
    pub fn n(&self, e: &str) -> u32 {
        self.ev.get(e).copied().unwrap_or(0)
    }
}

#[derive(Clone, Debug)]
pub struct RunCfg {
    /// property number 1..=18 under decision (0 = all clauses owned)
    pub prop: u8,
    /// run the size_hint metamorphic relation on extend / from_iter
    pub hint_meta: bool,
    /// check raw tables after every step
    pub tables: bool,
    /// universe of item ids
    pub universe: u32,
    /// raw mode: no model validation (C10 continuations)
    pub raw: bool,
    /// record the item ids of returned elements even among equal priorities (C17 twin comparison)
    pub strict_trace: bool,
}

thread_local! {
    pub static CUR_STEP: Cell<(i32, &'static str)> = const { Cell::new((-1, "ctor")) };
}

pub struct Interp<'c, Q: Queue> {
    pub q: Q,
    pub model: Model,
    pub case: &'c Case,
    pub cfg: &'c RunCfg,
    pub stats: Stats,
    pub step: i32,
    pub opname: &'static str,
    pub order_on: bool,
    pub fails: Vec<RawFail>,
    /// ids that were removed at some point (for the re-insertion class)
    pub removed: std::collections::BTreeSet<u32>,
    /// an order-disturbing step happened and no checked extraction followed yet
    pub disturbed: bool,
    /// a drain/clear (C16) or capacity op (C17) happened earlier in this case
    pub after_special: bool,
    /// force a drain check after this step
    pub force_drain: bool,
    /// trace of normalized return values (C18)
    pub trace: Option<Vec<TraceEv>>,
    /// a clone kept aside by Op::Snapshot (with its model), the source of Op::RestoreFrom
    pub snapshot: Option<(Q, Model, bool)>,
    /// set by an operation after which the order is unspecified once its own observation is done
    /// (late writes through iter_mut references, known finding F7)
    pub pending_order_off: bool,
}

/// normalized return value for cross-execution comparison (C18): shape + priorities; ids only
/// where the priority was unique in the model at that point
#[derive(Clone, Debug, PartialEq, Eq)]
pub enum TraceEv {
    Unit,
    Bool(bool),
    OptPrio(Option<i64>),
    OptElem(Option<(Option<u32>, u32, i64)>),
    Len(usize),
}

pub fn bit(mask: u64, id: u32) -> bool {
    (mask >> (id % 64)) & 1 == 1
}

/// resolved rewrite
#[derive(Clone, Copy, Debug)]
pub struct RRw {
    pub rw: Rewrite,
    pub gmax: i64,
    pub gmin: i64,
}
impl RRw {
    pub fn apply(&self, id: u32, old: i64) -> i64 {
        match self.rw {
            Rewrite::Keep => old,
            Rewrite::Set(v) => v,
            Rewrite::Add(d) => old.saturating_add(d),
            Rewrite::Neg => old.checked_neg().unwrap_or(i64::MAX),
            Rewrite::AboveMax => self.gmax.saturating_add(1 + (id % 3) as i64),
            Rewrite::BelowMin => self.gmin.saturating_sub(1 + (id % 3) as i64),
            Rewrite::ToMax => self.gmax,
            Rewrite::ToMin => self.gmin,
            Rewrite::Scatter(a, m) => {
                let m = (m as i64).max(1);
                ((id as i64).wrapping_mul(a as i64 + 1) % m) - m / 2
            }
        }
    }
}

/// An iterator adaptor whose size_hint is generated but always legal.
pub struct Hinted<I> {
    pub inner: I,
    pub remaining: usize,
    pub hint: Hint,
    /// the iterator is deliberately NOT fused: polled again after it returned None, it yields
    /// poison pairs (ids >= POISON_ID). The outcome of extend / from_iter may depend only on the
    /// pairs yielded up to the first None, so poison in the result is a defect.
    pub done: bool,
    pub poison: u32,
    /// how many of the remaining pairs will make the receiver grow (never more than `remaining`)
    pub fresh: usize,
}
pub const POISON_ID: u32 = 3_500_000;
pub const HUGE_UPPER: [usize; 4] = [1usize << 62, isize::MAX as usize, usize::MAX - 1, usize::MAX];
impl<I: Iterator<Item = (Key, Prio)>> Iterator for Hinted<I> {
    type Item = (Key, Prio);
    fn next(&mut self) -> Option<(Key, Prio)> {
        tick(FaultKind::Feed);
        if self.done {
            // a few poison pairs, then None for good (an implementation that keeps polling must terminate)
            if self.poison >= 3 {
                return None;
            }
            self.poison += 1;
            return Some((Key::new(POISON_ID + self.poison, 0), Prio::new(i64::MAX - self.poison as i64)));
        }
        let r = self.inner.next();
        if r.is_some() {
            self.remaining -= 1;
        } else {
            self.done = true;
        }
        r
    }
    fn size_hint(&self) -> (usize, Option<usize>) {
        let k = self.remaining;
        match self.hint {
            Hint::Exact => (k, Some(k)),
            Hint::Unknown => (0, None),
            Hint::LowerOnly => (k, None),
            Hint::UpperOnly => (0, Some(k)),
            Hint::Loose(lo, slack) => (k.saturating_sub(lo as usize), Some(k + slack as usize)),
            Hint::UpperPow(e) => (0, Some(k + (1usize << (e.clamp(10, 16))))),
            Hint::UpperHuge(i) => (0, Some(HUGE_UPPER[(i % 4) as usize])),
            Hint::LowerShort(d) => (k.saturating_sub(d as usize), None),
            Hint::Half => (k / 2, Some(2 * k + 1)),
            Hint::FreshLower => (self.fresh.min(k), None),
            Hint::FreshBounds => (self.fresh.min(k), Some(k)),
        }
    }
}
/// for an empty receiver: every distinct item of the batch is fresh
pub fn hinted(pairs: &[(u32, u32, i64)], hint: Hint) -> Hinted<impl Iterator<Item = (Key, Prio)> + '_> {
    let distinct: std::collections::BTreeSet<u32> = pairs.iter().map(|p| p.0).collect();
    hinted_fresh(pairs, hint, distinct.len())
}
pub fn hinted_fresh(pairs: &[(u32, u32, i64)], hint: Hint, fresh: usize) -> Hinted<impl Iterator<Item = (Key, Prio)> + '_> {
    Hinted {
        inner: pairs.iter().map(|&(id, tag, p)| (Key::new(id, tag), Prio::new(p))),
        remaining: pairs.len(),
        hint,
        done: false,
        poison: 0,
        fresh: fresh.min(pairs.len()),
    }
}

impl<'c, Q: Queue> Interp<'c, Q> {
    pub fn fail(&mut self, g: Group, clause: &'static str, detail: String) {
        self.fails.push((g, clause, detail));
    }

    /// which failures the property under decision owns
    pub fn owns(&self, g: Group, op: &'static str) -> bool {
        let pq = !Q::DOUBLE;
        match self.cfg.prop {
            0 => true,
            // a history that cannot complete because a fault-free call panics violates "after any sequence"
            1 => pq && matches!(g, Group::Order | Group::Panic),
            2 => !pq && matches!(g, Group::Order | Group::Panic),
            // a deserialized queue whose length disagrees with its contents / holds an item twice is a content defect too
            3 => matches!(g, Group::Content | Group::Ret | Group::Panic) || (g == Group::Serde && matches!(op, "deser_seq" | "serde")),
            4 => matches!(g, Group::Panic | Group::Tables),
            6 => g == Group::Sorted || (matches!(g, Group::Panic | Group::IterStd) && matches!(op, "sorted" | "sorted_iter" | "adaptor_sorted")),
            7 => {
                g == Group::Hint
                    || (matches!(op, "extend" | "append" | "from_vec" | "from_iter" | "convert" | "ctor")
                        && g != Group::Tables)
            }
            8 => (matches!(op, "retain" | "retain_mut" | "iter_mut" | "iter_mut_late_write" | "pop_if") && !matches!(g, Group::Tables | Group::IterMutContract)) || (op == "adaptor_iter_mut" && matches!(g, Group::Alias | Group::Panic)),
            9 => matches!(g, Group::Alias | Group::IterMutContract) || (g == Group::Panic && matches!(op, "iter_mut" | "iter_mut_late_write" | "adaptor_iter_mut")),
            11 => matches!(op, "push_increase" | "push_decrease") && g != Group::Tables,
            12 => g == Group::Tag,
            13 => {
                g == Group::IterStd
                    || (g == Group::Panic
                        && matches!(op, "iter" | "ref_into_iter" | "into_iter" | "drain" | "sorted_iter" | "adaptor" | "adaptor_sorted"))
            }
            14 => g == Group::EqClone || (matches!(op, "eq" | "clone") && g != Group::Tables),
            15 => g == Group::Serde || (matches!(op, "serde" | "deser_seq") && g != Group::Tables),
            16 => (matches!(op, "clear" | "drain") || self.after_special) && g != Group::Tables,
            17 => {
                g == Group::Cap
                    || ((matches!(op, "reserve" | "shrink_to_fit") || self.after_special) && g != Group::Tables)
            }
            18 => g == Group::Hasher,
            _ => false,
        }
    }

    pub fn finish_step(&mut self) -> Option<Outcome> {
        if self.fails.is_empty() || self.cfg.raw {
            self.fails.clear();
            return None;
        }
        let mut fails = std::mem::take(&mut self.fails);
        // the raw tables are an alarm only where a property speaks about them (C04); elsewhere the
        // hook is a search accelerator and a table anomaly must not end the case
        if !self.owns(Group::Tables, self.opname) {
            fails.retain(|f| f.0 != Group::Tables);
            if fails.is_empty() {
                self.stats.hit("table_anomaly_ignored");
                return None;
            }
        }
        let mk = |f: &RawFail, s: &Self| Failure {
            group: f.0,
            clause: f.1,
            step: s.step,
            op: s.opname,
            detail: f.2.clone(),
            kind: Q::NAME,
        };
        for f in fails.iter() {
            if self.owns(f.0, self.opname) {
                return Some(Outcome::Fail(mk(f, self)));
            }
        }
        // Failures of clauses the property does not own: if they are purely observational (the
        // model is still an exact description of the content) the case goes on, so that a defect
        // whose first symptom belongs to another property cannot hide this property's symptom.
        // If content or return values diverged, the model is no longer usable: stop, no alarm.
        let observational = |g: Group| {
            matches!(
                g,
                Group::Order | Group::Tables | Group::Sorted | Group::IterStd | Group::Alias | Group::IterMutContract | Group::Hint | Group::Cap | Group::EqClone | Group::Hasher
            )
        };
        if fails.iter().all(|f| observational(f.0)) {
            self.stats.hit("foreign_observational_ignored");
            return None;
        }
        let f = fails.iter().find(|f| !observational(f.0)).unwrap();
        Some(Outcome::Foreign(mk(f, self)))
    }

    // ------------------------------------------------------------------ resolution

    pub fn resolve_target(&self, t: Target) -> u32 {
        let n = self.q.len();
        match t {
            Target::Id(i) => i % self.cfg.universe.max(1),
            Target::Pos(f) => {
                if n == 0 {
                    return 0;
                }
                let s = self.q.snapshot();
                let pos = (f as usize * s.entries.len()) >> 16;
                s.entries.get(pos).and_then(|e| e.map(|x| x.0)).unwrap_or(0)
            }
            Target::Slot(f) => {
                if n == 0 {
                    return 0;
                }
                let c = self.q.iter().count();
                let idx = (f as usize * c) >> 16;
                self.q.iter().nth(idx).map(|(k, _)| k.id).unwrap_or(0)
            }
            Target::Max => self
                .model
                .max_prio()
                .and_then(|p| self.model.first_with_prio(p))
                .unwrap_or(0),
            Target::Min => self
                .model
                .min_prio()
                .and_then(|p| self.model.first_with_prio(p))
                .unwrap_or(0),
        }
    }

    pub fn resolve_prio(&self, p: PrioSpec, target: u32) -> i64 {
        let cur = self.model.get(target).map(|x| x.1);
        match p {
            PrioSpec::Val(v) => v,
            PrioSpec::AboveMax(d) => self.model.max_prio().unwrap_or(0).saturating_add(1 + d as i64),
            PrioSpec::BelowMin(d) => self.model.min_prio().unwrap_or(0).saturating_sub(1 + d as i64),
            PrioSpec::EqMax => self.model.max_prio().unwrap_or(0),
            PrioSpec::EqMin => self.model.min_prio().unwrap_or(0),
            PrioSpec::SameAsSlot(f) => {
                let c = self.q.iter().count();
                if c == 0 {
                    0
                } else {
                    self.q.iter().nth((f as usize * c) >> 16).map(|(_, p)| p.v).unwrap_or(0)
                }
            }
            PrioSpec::Unchanged => cur.unwrap_or(0),
            PrioSpec::Delta(d) => cur.unwrap_or(0).saturating_add(d as i64),
            PrioSpec::EqParent | PrioSpec::BetweenParentGrand => {
                let s = self.q.snapshot();
                let pos = s.entries.iter().position(|e| e.map(|x| x.0) == Some(target));
                match pos {
                    Some(pos) if pos > 0 => {
                        let par = (pos - 1) / 2;
                        let pp = s.entries[par].map(|x| x.1).unwrap_or(0);
                        if p == PrioSpec::EqParent || par == 0 {
                            pp
                        } else {
                            let g = (par - 1) / 2;
                            let gp = s.entries[g].map(|x| x.1).unwrap_or(0);
                            // midpoint, biased towards the grandparent side
                            let (lo, hi) = if pp < gp { (pp, gp) } else { (gp, pp) };
                            lo.saturating_add((hi.saturating_sub(lo)) / 2)
                        }
                    }
                    _ => cur.unwrap_or(0),
                }
            }
        }
    }

    pub fn resolve_rw(&self, rw: Rewrite) -> RRw {
        RRw {
            rw,
            gmax: self.model.max_prio().unwrap_or(0),
            gmin: self.model.min_prio().unwrap_or(0),
        }
    }

    pub fn resolve_pairs(&self, pairs: &[Pair]) -> Vec<(u32, u32, i64)> {
        pairs
            .iter()
            .map(|&(id, tag, p)| {
                let id = id % self.cfg.universe.max(1);
                (id, tag, self.resolve_prio(p, id))
            })
            .collect()
    }

    pub fn peek_id(&self, end: End) -> Option<u32> {
        match end {
            End::Max => self.q.peek_max().map(|(k, _)| k.id),
            End::Min => self.q.peek_min().map(|(k, _)| k.id),
        }
    }

    pub fn tr(&mut self, ev: TraceEv) {
        if let Some(t) = self.trace.as_mut() {
            t.push(ev);
        }
    }
    pub fn tr_elem(&mut self, e: Option<Elem>) {
        if self.trace.is_some() {
            let ev = TraceEv::OptElem(e.map(|(id, tag, p)| {
                // the id is comparable only when the priority is unique (before removal)
                let uniq = self.cfg.strict_trace || self.model.count_prio(p) <= 1;
                (if uniq { Some(id) } else { None }, tag, p)
            }));
            self.tr(ev);
        }
    }

    /// Deterministic continuations from clones of a state whose raw order is anomalous: pushes of a
    /// new maximum / minimum / middle element, priority changes and removals of sampled elements,
    /// each followed by the behavioural drain check. Only a continuation that returns a wrong answer
    /// through the public API is reported.
    pub fn witness_battery(&mut self, out: &mut Vec<RawFail>) {
        let elems = self.model.elems();
        let n = elems.len();
        if n == 0 {
            return;
        }
        let hi = self.model.max_prio().unwrap_or(0);
        let lo = self.model.min_prio().unwrap_or(0);
        let fresh = self.model.m.keys().next_back().map_or(0, |m| m.wrapping_add(1)).max(self.cfg.universe);
        let stride = (n / 24).max(1);
        let mut tries: Vec<(String, Box<dyn Fn(&mut Q, &mut Model)>)> = Vec::new();
        for (j, np) in [hi.saturating_add(1), lo.saturating_sub(1), lo / 2 + hi / 2, hi, lo].into_iter().enumerate() {
            tries.push((
                format!("push of a new element with priority {}", np),
                Box::new(move |q: &mut Q, m: &mut Model| {
                    q.push(Key::new(fresh + j as u32, 0), Prio::new(np));
                    m.set(fresh + j as u32, 0, np);
                }),
            ));
        }
        // several pushes in a row (a pop alone may silently repair the anomaly)
        tries.push((
            "eight pushes of ascending new maxima".to_string(),
            Box::new(move |q: &mut Q, m: &mut Model| {
                for j in 0..8u32 {
                    let np = hi.saturating_add(1 + j as i64);
                    q.push(Key::new(fresh + 10 + j, 0), Prio::new(np));
                    m.set(fresh + 10 + j, 0, np);
                }
            }),
        ));
        // grow the queue by more than half its size (an element in the last positions is relocated by
        // the next pops, which would silently repair an anomaly at the bottom)
        for below in [true, false] {
            let cnt = (n / 2 + 8) as u32;
            tries.push((
                format!("{} pushes of new elements {} everything stored", cnt, if below { "below" } else { "above" }),
                Box::new(move |q: &mut Q, m: &mut Model| {
                    for j in 0..cnt {
                        let np = if below { lo.saturating_sub(1 + (j % 7) as i64) } else { hi.saturating_add(1 + (j % 7) as i64) };
                        q.push(Key::new(fresh + 100 + j, 0), Prio::new(np));
                        m.set(fresh + 100 + j, 0, np);
                    }
                }),
            ));
        }
        for (i, e) in elems.iter().enumerate() {
            if i % stride != 0 {
                continue;
            }
            let id = e.0;
            for np in [hi.saturating_add(1), lo.saturating_sub(1)] {
                tries.push((
                    format!("change_priority({}, {})", id, np),
                    Box::new(move |q: &mut Q, m: &mut Model| {
                        q.change_priority(&id, Prio::new(np));
                        m.set_prio(id, np);
                    }),
                ));
            }
            tries.push((
                format!("remove({})", id),
                Box::new(move |q: &mut Q, m: &mut Model| {
                    q.remove(&id);
                    m.remove(id);
                }),
            ));
        }
        for (what, f) in tries {
            let mut c = self.q.clone();
            let mut m = self.model.clone();
            f(&mut c, &mut m);
            let mut o = Vec::new();
            check_queue(&c, &m, 0, true, false, &mut o);
            if o.is_empty() {
                drain_check(&c, &m, self.case.drain_bits, &mut o);
            }
            if let Some(first) = o.into_iter().find(|x| matches!(x.0, Group::Order | Group::Content)) {
                out.push((first.0, first.1, format!("after the continuation [{}] from this state: {}", what, first.2)));
                return;
            }
        }
    }

    // ------------------------------------------------------------------ state check

    pub fn check_state(&mut self) {
        let n = self.model.len();
        if n > self.stats.max_size {
            self.stats.max_size = n;
        }
        if self.cfg.raw {
            return;
        }
        if n == 0 {
            self.order_on = true;
        }
        let mut out = Vec::new();
        check_queue(&self.q, &self.model, self.cfg.universe, self.order_on, self.cfg.tables, &mut out);
        if out.is_empty() && self.order_on {
            let every = self.case.drain_every.max(1) as i32;
            let mut do_drain = n <= 32 || self.force_drain || (self.step.max(0) % every == 0 && n <= 400);
            if !do_drain && self.cfg.tables {
                // escalation: a raw order anomaly triggers the behavioural check at once
                if !order_ok(&self.q.snapshot(), Q::DOUBLE) {
                    do_drain = true;
                    self.stats.hit("order_anomaly_escalated");
                }
            }
            if do_drain && n > 0 {
                drain_check(&self.q, &self.model, self.case.drain_bits, &mut out);
                self.stats.hit("drain_check");
                if out.is_empty() && self.cfg.tables && !order_ok(&self.q.snapshot(), Q::DOUBLE) {
                    // the raw heap order is broken but plain draining does not show it: look for a
                    // behavioural witness among single-step continuations on clones
                    self.witness_battery(&mut out);
                    if out.is_empty() {
                        self.stats.hit("order_anomaly_without_witness");
                    } else {
                        self.stats.hit("order_anomaly_witness_by_battery");
                    }
                }
            }
        }
        self.force_drain = false;
        self.fails.extend(out);
    }
}

/// Build the initial queue and model from the constructor description.
pub fn construct<Q: Queue>(case: &Case, fails: &mut Vec<RawFail>) -> (Q, Model) {
    let hk = case.hasher;
    let init = &case.ctor.init;
    let mk = |v: &[(u32, u32, i64)]| -> Vec<(Key, Prio)> {
        v.iter().map(|&(id, tag, p)| (Key::new(id, tag), Prio::new(p))).collect()
    };
    let mut model = Model::new();
    let empty = |how: CtorHow, model: &mut Model, fails: &mut Vec<RawFail>| -> Q {
        let mut q = Q::construct(how, hk);
        if let CtorHow::WithCapacity(c) | CtorHow::WithCapacityAndHasher(c) | CtorHow::WithCapacityAndDefaultHasher(c) = how {
            if q.capacity() < c {
                fails.push((Group::Cap, "with_capacity", format!("capacity()={} < requested {}", q.capacity(), c)));
            }
        }
        for &(id, tag, p) in init.iter() {
            let want = model.get(id).map(|x| x.1);
            let got = q.push(Key::new(id, tag), Prio::new(p)).map(|x| x.v);
            if got != want {
                fails.push((Group::Ret, "push_ret", format!("ctor push({},{}) returned {:?}, model {:?}", id, p, got, want)));
            }
            if want.is_some() {
                model.set_prio(id, p);
            } else {
                model.set(id, tag, p);
            }
        }
        q
    };
    let first_wins = |model: &mut Model| {
        for &(id, tag, p) in init.iter() {
            if !model.contains(id) {
                model.set(id, tag, p);
            }
        }
    };
    set_default_hb(hk);
    let q = match case.ctor.how {
        CtorKind::New => empty(CtorHow::New, &mut model, fails),
        CtorKind::WithCapacity(c) => empty(CtorHow::WithCapacity(c as usize), &mut model, fails),
        CtorKind::WithHasher => empty(CtorHow::WithHasher, &mut model, fails),
        CtorKind::WithCapacityAndHasher(c) => empty(CtorHow::WithCapacityAndHasher(c as usize), &mut model, fails),
        CtorKind::WithDefaultHasher => empty(CtorHow::WithDefaultHasher, &mut model, fails),
        CtorKind::WithCapacityAndDefaultHasher(c) => {
            empty(CtorHow::WithCapacityAndDefaultHasher(c as usize), &mut model, fails)
        }
        CtorKind::Default => empty(CtorHow::Default, &mut model, fails),
        CtorKind::FromVec => {
            first_wins(&mut model);
            Q::from_vec(mk(init))
        }
        CtorKind::FromIter => {
            // last priority wins; the payload may be the first or the last given
            let mut firsttag: BTreeMap<u32, u32> = BTreeMap::new();
            for &(id, tag, p) in init.iter() {
                firsttag.entry(id).or_insert(tag);
                model.set(id, tag, p);
            }
            let q = Q::from_iterator(mk(init).into_iter());
            follow_tags(&q, &mut model, |id, t| firsttag.get(&id) == Some(&t) || init.iter().any(|e| e.0 == id && e.1 == t));
            q
        }
        CtorKind::FromOther => {
            first_wins(&mut model);
            let o = <Q::Other as Queue>::from_vec(mk(init));
            let mut out = Vec::new();
            check_queue(&o, &model, 0, true, true, &mut out);
            fails.extend(out);
            o.into_other()
        }
        CtorKind::Deserialize => {
            #[cfg(feature = "std")]
            {
                first_wins(&mut model);
                let distinct: Vec<((u32, u32), i64)> = model.elems().iter().map(|&(id, t, p)| ((id, t), p)).collect();
                let js = serde_json::to_string(&distinct).unwrap();
                match Q::from_json(&js) {
                    Ok(q) => q,
                    Err(e) => {
                        fails.push((Group::Serde, "deserialize_err", format!("deserializing {} failed: {}", js, e)));
                        model.clear();
                        Q::construct(CtorHow::WithDefaultHasher, hk)
                    }
                }
            }
            #[cfg(not(feature = "std"))]
            {
                first_wins(&mut model);
                Q::from_vec(mk(init))
            }
        }
    };
    let mut q = q;
    if case.pad > 0 {
        let n = case.pad as usize;
        let pairs: Vec<(u32, u32, i64)> = (0..n).map(|i| (2_000_000 + i as u32, 0, ((i as u64).wrapping_mul(0x9E37_79B9_7F4A_7C15) >> 44) as i64 % (2 * n as i64 + 1) + 1)).collect();
        for &(id, t, p) in pairs.iter() {
            model.set(id, t, p);
        }
        q.extend_with(hinted(&pairs, Hint::Exact));
    }
    (q, model)
}

/// Where the specification leaves the payload open, the model follows the implementation if the
/// observed payload is one of the acceptable ones.
pub fn follow_tags<Q: Queue>(q: &Q, model: &mut Model, ok: impl Fn(u32, u32) -> bool) {
    let obs: Vec<(u32, u32)> = q.iter().map(|(k, _)| (k.id, k.tag)).collect();
    for (id, t) in obs {
        if let Some((mt, _)) = model.get(id) {
            if mt != t && ok(id, t) {
                model.set_tag(id, t);
            }
        }
    }
}

impl<'c, Q: Queue> Interp<'c, Q> {
    /// construct the queue and the model and run the first observation
    pub fn start(case: &'c Case, cfg: &'c RunCfg, want_trace: bool) -> (Self, Option<Outcome>) {
        CUR_STEP.with(|c| c.set((-1, "ctor")));
        let mut fails = Vec::new();
        let (q, model) = construct::<Q>(case, &mut fails);
        let mut it = Interp {
            q,
            model,
            case,
            cfg,
            stats: Stats::default(),
            step: -1,
            opname: "ctor",
            order_on: true,
            fails,
            removed: Default::default(),
            disturbed: false,
            after_special: false,
            force_drain: true,
            trace: if want_trace { Some(Vec::new()) } else { None },
            snapshot: None,
            pending_order_off: false,
        };
        it.stats.hit(match case.ctor.how {
            CtorKind::FromVec => "ctor_from_vec",
            CtorKind::FromIter => "ctor_from_iter",
            CtorKind::FromOther => "ctor_from_other",
            CtorKind::Deserialize => "ctor_deserialize",
            _ => "ctor_empty_push",
        });
        it.check_state();
        let o = it.finish_step();
        (it, o)
    }

    /// run one operation followed by the full observation
    pub fn step_op(&mut self, i: usize, op: &Op) -> Option<Outcome> {
        self.step = i as i32;
        self.opname = op.name();
        CUR_STEP.with(|c| c.set((i as i32, self.opname)));
        self.stats.steps += 1;
        self.stats.hit(op_ev(self.opname));
        if self.after_special {
            self.stats.hit("after_special_ops");
            if matches!(op, Op::Pop { .. } | Op::PopIf { ans: true, .. }) && !self.model.is_empty() {
                self.stats.hit("after_special_extract");
            }
        }
        self.apply(op);
        crate::runner::AFTER_SPECIAL.with(|a| a.set(self.after_special));
        self.check_state();
        let r = self.finish_step();
        if self.pending_order_off {
            self.pending_order_off = false;
            if !self.model.is_empty() {
                self.order_on = false;
            }
        }
        r
    }

    pub fn size_events(&mut self) {
        if self.stats.max_size >= 4 {
            self.stats.hit("size_ge4");
        }
        if self.stats.max_size >= 16 {
            self.stats.hit("size_ge16");
        }
        if self.stats.max_size >= 64 {
            self.stats.hit("size_ge64");
        }
    }
}

pub fn run_case<Q: Queue>(case: &Case, cfg: &RunCfg, stats: &mut Stats, want_trace: bool) -> (Outcome, Option<Vec<TraceEv>>) {
    let (mut it, early) = Interp::<Q>::start(case, cfg, want_trace);
    let mut outcome = Outcome::Pass;
    if let Some(o) = early {
        outcome = o;
    } else {
        for (i, op) in case.ops.iter().enumerate() {
            if let Some(o) = it.step_op(i, op) {
                outcome = o;
                break;
            }
        }
    }
    it.size_events();
    let tr = it.trace.take();
    *stats = std::mem::take(&mut it.stats);
    (outcome, tr)
}
