//! The reference model: a map from item id to (payload tag, priority), plus a priority multiset so
//! that the extremes are available in O(log n).

use std::collections::BTreeMap;

use crate::queue::Elem;

#[derive(Clone, Debug, Default, PartialEq, Eq)]
pub struct Model {
    pub m: BTreeMap<u32, (u32, i64)>,
    prios: BTreeMap<i64, u32>,
}

impl Model {
    pub fn new() -> Model {
        Model::default()
    }
    pub fn from_elems<I: IntoIterator<Item = Elem>>(it: I) -> Model {
        let mut m = Model::new();
        for (id, tag, p) in it {
            m.set(id, tag, p);
        }
        m
    }
    pub fn len(&self) -> usize {
        self.m.len()
    }
    pub fn is_empty(&self) -> bool {
        self.m.is_empty()
    }
    pub fn get(&self, id: u32) -> Option<(u32, i64)> {
        self.m.get(&id).copied()
    }
    pub fn contains(&self, id: u32) -> bool {
        self.m.contains_key(&id)
    }
    fn dec(&mut self, p: i64) {
        if let Some(c) = self.prios.get_mut(&p) {
            *c -= 1;
            if *c == 0 {
                self.prios.remove(&p);
            }
        }
    }
    /// insert or overwrite (tag and priority)
    pub fn set(&mut self, id: u32, tag: u32, p: i64) {
        if let Some((_, old)) = self.m.insert(id, (tag, p)) {
            self.dec(old);
        }
        *self.prios.entry(p).or_insert(0) += 1;
    }
    pub fn set_prio(&mut self, id: u32, p: i64) {
        if let Some(e) = self.m.get_mut(&id) {
            let old = e.1;
            e.1 = p;
            self.dec(old);
            *self.prios.entry(p).or_insert(0) += 1;
        }
    }
    pub fn set_tag(&mut self, id: u32, tag: u32) {
        if let Some(e) = self.m.get_mut(&id) {
            e.0 = tag;
        }
    }
    pub fn remove(&mut self, id: u32) -> Option<(u32, i64)> {
        let r = self.m.remove(&id);
        if let Some((_, p)) = r {
            self.dec(p);
        }
        r
    }
    pub fn clear(&mut self) {
        self.m.clear();
        self.prios.clear();
    }
    pub fn max_prio(&self) -> Option<i64> {
        self.prios.keys().next_back().copied()
    }
    pub fn min_prio(&self) -> Option<i64> {
        self.prios.keys().next().copied()
    }
    pub fn count_prio(&self, p: i64) -> u32 {
        self.prios.get(&p).copied().unwrap_or(0)
    }
    pub fn has_ties(&self) -> bool {
        self.prios.len() < self.m.len()
    }
    pub fn elems(&self) -> Vec<Elem> {
        self.m.iter().map(|(&id, &(t, p))| (id, t, p)).collect()
    }
    pub fn first_with_prio(&self, p: i64) -> Option<u32> {
        self.m.iter().find(|(_, &(_, q))| q == p).map(|(&id, _)| id)
    }
}
