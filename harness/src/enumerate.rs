//! Exhaustive small-scope enumeration: where the space a property names is tiny, the generator is
//! replaced by a complete enumeration (in addition to, not instead of, random generation).

use crate::case::*;
use crate::gen::ALL_COMPS;
use crate::types::HasherKind;

fn programs(alphabet: &[ItCall], max_len: usize) -> Vec<Vec<ItCall>> {
    let mut out: Vec<Vec<ItCall>> = vec![vec![]];
    let mut frontier: Vec<Vec<ItCall>> = vec![vec![]];
    for _ in 0..max_len {
        let mut next = Vec::new();
        for p in frontier.iter() {
            for c in alphabet {
                let mut q = p.clone();
                q.push(*c);
                next.push(q);
            }
        }
        out.extend(next.iter().cloned());
        frontier = next;
    }
    out
}

fn init(n: usize, pattern: u8) -> Vec<(u32, u32, i64)> {
    (0..n)
        .map(|i| {
            let p = match pattern {
                0 => i as i64,           // distinct ascending
                1 => 5,                  // all ties
                2 => (i % 2) as i64,     // two-valued
                _ => (n - i) as i64 * 3, // descending
            };
            (i as u32, 100 + i as u32, p)
        })
        .collect()
}

fn mk(kind: Kind, ctor: CtorKind, init: Vec<(u32, u32, i64)>, ops: Vec<Op>) -> Case {
    Case { kind, hasher: HasherKind::Fixed, universe: 12, ctor: Ctor { how: ctor, init }, ops, faults: vec![], drain_every: 1, drain_bits: 0xA5A5_5A5A_A5A5_5A5A, pad: 0 }
}

pub fn space_text(prop: u8) -> &'static str {
    match prop {
        6 => "all next/next_back/len call programs of length <= 7 on into_sorted_iter (directly and reversed) over every queue of 0..=5 elements with 3 priority patterns (distinct, all ties, two-valued), plus the sorted-vec forms; sorted-fill sweep: queues filled in descending / ascending / all-equal / run-descending order, every size 2..=130 and a sparse set up to 1100, 9 late disturbances near the bottom of the heap, then every form of sorted consumption",
        8 => "all 2^n keep-masks of retain and retain_mut (with two rewrites) over n <= 8 elements, 3 priority patterns, both kinds",
        9 => "all next/next_back/probe call programs of length <= 7 on iter_mut() and (&mut q).into_iter() over n <= 4 elements, with and without priority rewrites, both kinds",
        1 | 2 => "size sweep: every queue size 2..=64 and a dense subset up to 600 x 4 priority patterns x {root to below-min, pop, last leaf to above-max, remove root, pop_if rewriting to below-min, extreme ties}",
        11 => "size sweep: every queue size 2..=1100 x 4 priority patterns x push_decrease of root / second level to below-min, push_increase of the last leaf to above-max, ties with the extremes; and push_increase / push_decrease x 9 offered-priority classes x every target position x n <= 6 x 3 priority patterns x both kinds",
        13 => "all call programs of length <= 6 on iter/&q/into_iter/drain/sorted over n <= 4, and all 42 adaptor compositions x arguments 0..=n+2 x 6 iterator kinds x n <= 4, both kinds",
        16 => "drain / clear on queues with 65 537 ... 4 194 309 elements of capacity behind them (reserved by with_capacity or by reserve) and a handful of elements, in six variants (clear; drain unused, partly used, leaked, fully used; shrink_to_fit and a second drain), each refilled and popped afterwards, both kinds",
        17 => "capacity battery: 7 amounts from 65 537 to 8 388 608 elements x {with_capacity, with_capacity_and_hasher, with_capacity_and_default_hasher, reserve, reserve_exact, try_reserve, try_reserve_exact} x both kinds, each followed by pushes, pops, shrink_to_fit and a second reservation",
        _ => "",
    }
}

pub fn small_cases(prop: u8) -> Vec<Case> {
    let mut v = Vec::new();
    let kinds = [Kind::PQ, Kind::DPQ];
    let full = [ItCall::Next, ItCall::Back, ItCall::Probe];
    let fwd = [ItCall::Next, ItCall::Probe];
    match prop {
        16 => {
            // drain / clear on queues with a big capacity behind them (reserved by the constructor or by
            // reserve, far more than they hold), then refilled: "a drained queue behaves like a fresh one"
            // must not depend on how much room the queue once had
            let amounts: [u32; 5] = [65_537, 300_000, 1_048_583, 1 << 21, 4_194_309];
            for kind in kinds {
                for (i, &c) in amounts.iter().enumerate() {
                    for variant in 0..6u8 {
                        let emptier = match variant {
                            0 => Op::Clear,
                            1 => Op::IterProg { which: ItKind::Drain, prog: vec![], end: EndHow::Drop },
                            2 => Op::IterProg { which: ItKind::Drain, prog: vec![ItCall::Next, ItCall::Back, ItCall::Probe], end: EndHow::Drop },
                            3 => Op::IterProg { which: ItKind::Drain, prog: vec![ItCall::Next], end: EndHow::Forget },
                            4 => Op::IterProg { which: ItKind::Drain, prog: vec![ItCall::Next; 12], end: EndHow::Drop },
                            _ => Op::Clear,
                        };
                        let (ctor, first): (CtorKind, Vec<Op>) = if variant % 2 == 0 {
                            (CtorKind::WithCapacity(c), vec![])
                        } else {
                            (CtorKind::New, vec![Op::Reserve { how: if variant == 1 { ResKind::Reserve } else { ResKind::TryReserveExact }, amt: Amount::Small(c) }])
                        };
                        let mut ops = first;
                        ops.push(emptier);
                        ops.push(Op::Push { t: Target::Id(3), tag: 1, p: PrioSpec::Val(5) });
                        ops.push(Op::Push { t: Target::Id(4), tag: 1, p: PrioSpec::Val(9) });
                        ops.push(Op::Push { t: Target::Id(5), tag: 1, p: PrioSpec::Val(1) });
                        ops.push(Op::Pop { end: End::Max });
                        ops.push(Op::Pop { end: if kind == Kind::DPQ { End::Min } else { End::Max } });
                        if variant == 5 {
                            ops.push(Op::Shrink);
                            ops.push(Op::IterProg { which: ItKind::Drain, prog: vec![ItCall::Back], end: EndHow::Drop });
                            ops.push(Op::Push { t: Target::Id(6), tag: 1, p: PrioSpec::Val(2) });
                            ops.push(Op::Pop { end: End::Max });
                        }
                        let mut case = mk(kind, ctor, init(2 + i + variant as usize, (variant % 3) as u8), ops);
                        case.drain_every = 4;
                        v.push(case);
                    }
                }
            }
        }
        17 => {
            // amounts between the sizes random generation affords (< 20 000) and the unsatisfiable ones:
            // 65 537 ... 8 388 608 elements, through every constructor that takes a capacity and every
            // reservation call, each followed by ordinary use and shrink_to_fit
            let amounts: [u32; 7] = [65_537, 262_144, 1_048_583, 1 << 21, 4_194_309, 5_000_000, 1 << 23];
            for kind in kinds {
                for (i, &c) in amounts.iter().enumerate() {
                    for ctor in [CtorKind::WithCapacity(c), CtorKind::WithCapacityAndHasher(c), CtorKind::WithCapacityAndDefaultHasher(c)] {
                        let mut case = mk(
                            kind,
                            ctor,
                            init(5, 0),
                            vec![
                                Op::Push { t: Target::Id(7), tag: 1, p: PrioSpec::AboveMax(1) },
                                Op::Pop { end: End::Max },
                                Op::Shrink,
                                Op::Push { t: Target::Id(8), tag: 1, p: PrioSpec::BelowMin(1) },
                                Op::Pop { end: if kind == Kind::DPQ { End::Min } else { End::Max } },
                            ],
                        );
                        case.drain_every = 3;
                        v.push(case);
                    }
                    for how in [ResKind::Reserve, ResKind::ReserveExact, ResKind::TryReserve, ResKind::TryReserveExact] {
                        let mut case = mk(
                            kind,
                            CtorKind::New,
                            init(3 + i, (i % 3) as u8),
                            vec![
                                Op::Reserve { how, amt: Amount::Small(c) },
                                Op::Push { t: Target::Id(9), tag: 1, p: PrioSpec::AboveMax(1) },
                                Op::Pop { end: End::Max },
                                Op::Shrink,
                                Op::Reserve { how, amt: Amount::Small(c / 3 + 1) },
                                Op::Change { t: Target::Slot(0), p: PrioSpec::AboveMax(2), by_ref: true },
                                Op::Pop { end: End::Max },
                            ],
                        );
                        case.drain_every = 4;
                        v.push(case);
                    }
                }
            }
        }
        9 => {
            for kind in kinds {
                let progs = if kind == Kind::DPQ { programs(&full, 7) } else { programs(&fwd, 7) };
                for n in 0..=4usize {
                    for via_into in [false, true] {
                        for (rw, rwmask) in [(Rewrite::Keep, 0u64), (Rewrite::Neg, u64::MAX)] {
                            for prog in progs.iter() {
                                v.push(mk(
                                    kind,
                                    CtorKind::FromVec,
                                    init(n, 0),
                                    vec![Op::IterMut { prog: prog.clone(), rw, rwmask, tagw: None, end: EndHow::Drop, via_into, late: false }],
                                ));
                            }
                        }
                    }
                }
            }
        }
        13 => {
            for kind in kinds {
                for n in 0..=4usize {
                    for which in [ItKind::Iter, ItKind::RefIntoIter, ItKind::IntoIter, ItKind::Drain, ItKind::Sorted] {
                        let progs = if which == ItKind::Sorted && kind == Kind::PQ { programs(&fwd, 6) } else { programs(&full, 6) };
                        for prog in progs {
                            v.push(mk(kind, CtorKind::New, init(n, 2), vec![Op::IterProg { which, prog, end: EndHow::Drop }]));
                        }
                    }
                    for which in [ItKind::Iter, ItKind::RefIntoIter, ItKind::IntoIter, ItKind::Drain, ItKind::Sorted, ItKind::IterMut] {
                        for comp in ALL_COMPS {
                            for a in 0..=(n + 1) as u8 {
                                for b in 0..=(n + 2) as u8 {
                                    v.push(mk(kind, CtorKind::FromVec, init(n, 0), vec![Op::Adapt { which, comp, a, b }]));
                                }
                            }
                        }
                    }
                }
            }
        }
        6 => {
            for kind in kinds {
                let progs = if kind == Kind::DPQ { programs(&full, 7) } else { programs(&fwd, 7) };
                for n in 0..=5usize {
                    for pattern in 0..3u8 {
                        for how in [SortedHow::Iter, SortedHow::IterRev] {
                            if how == SortedHow::IterRev && kind == Kind::PQ {
                                continue;
                            }
                            for prog in progs.iter() {
                                v.push(mk(kind, CtorKind::New, init(n, pattern), vec![Op::Sorted { how, prog: prog.clone() }]));
                            }
                        }
                        v.push(mk(kind, CtorKind::FromIter, init(n, pattern), vec![Op::Sorted { how: SortedHow::DescVec, prog: vec![] }, Op::Sorted { how: SortedHow::AscVec, prog: vec![] }]));
                    }
                }
            }
        }
        8 => {
            for kind in kinds {
                for n in 0..=8usize {
                    for pattern in [0u8, 1, 3] {
                        for mask in 0..(1u64 << n) {
                            // replicate the mask over the id space (ids are 0..n)
                            v.push(mk(kind, CtorKind::FromVec, init(n, pattern), vec![Op::Retain { mask }, Op::Pop { end: End::Max }]));
                            if n <= 6 {
                                for rw in [Rewrite::Neg, Rewrite::Scatter(3, 5)] {
                                    v.push(mk(
                                        kind,
                                        CtorKind::New,
                                        init(n, pattern),
                                        vec![Op::RetainMut { mask, rw, rwmask: mask ^ 0x15, tagw: None }, Op::Pop { end: End::Max }, Op::Pop { end: End::Min }],
                                    ));
                                }
                            }
                        }
                    }
                }
            }
        }
        11 => {
            let offers = [
                PrioSpec::Delta(-1),
                PrioSpec::Unchanged,
                PrioSpec::Delta(1),
                PrioSpec::AboveMax(0),
                PrioSpec::BelowMin(0),
                PrioSpec::Val(i64::MIN),
                PrioSpec::Val(i64::MAX),
                PrioSpec::EqMax,
                PrioSpec::EqMin,
            ];
            for kind in kinds {
                for n in 1..=6usize {
                    for pattern in [0u8, 1, 2] {
                        for pos in 0..n {
                            let t = Target::Pos(((pos * 65536 + 32768) / n) as u16);
                            for p in offers {
                                for inc in [true, false] {
                                    let op = if inc { Op::PushInc { t, tag: 7, p } } else { Op::PushDec { t, tag: 7, p } };
                                    v.push(mk(kind, CtorKind::FromVec, init(n, pattern), vec![op, Op::Pop { end: End::Max }]));
                                }
                            }
                        }
                    }
                }
            }
        }
        _ => {}
    }
    v.extend(size_sweep(prop));
    v
}

/// Every queue size in a range x four priority patterns x the single-element operations that sift
/// from the root to the bottom or from the last leaf to the top: boundary conditions that depend on
/// the exact size (last parent with a single child, level boundaries, size thresholds of fast paths).
pub fn size_sweep(prop: u8) -> Vec<Case> {
    let mut v = Vec::new();
    if prop == 6 {
        return sorted_fill_sweep();
    }
    let (kinds, max_n): (&[Kind], usize) = match prop {
        1 => (&[Kind::PQ], 600),
        2 => (&[Kind::DPQ], 600),
        11 => (&[Kind::PQ, Kind::DPQ], 1100),
        _ => return v,
    };
    let big = |n: usize, pattern: u8| -> Vec<(u32, u32, i64)> {
        (0..n)
            .map(|i| {
                let p = match pattern {
                    0 => i as i64,
                    1 => (n - i) as i64,
                    2 => ((i as u64).wrapping_mul(0x9E37_79B9_7F4A_7C15) >> 44) as i64,
                    _ => (i % 3) as i64,
                };
                (i as u32, 0, p)
            })
            .collect()
    };
    for &kind in kinds {
        for n in 2..=max_n {
            // below 64 the exhaustive/random parts are dense already; above, every size is visited
            if n > 64 && prop != 11 && n % 2 == 1 && n % 7 != 0 {
                continue;
            }
            for pattern in 0..4u8 {
                let root = Target::Pos(0);
                let deep = Target::Pos(65535);
                let second = Target::Pos((65536usize * 2 / n.max(3) + 1).min(65535) as u16);
                let ops: Vec<Vec<Op>> = match prop {
                    11 => vec![
                        // lowered to the bottom region but not below everything: an element left one level
                        // too high can then be extracted before a larger one
                        vec![Op::PushDec { t: root, tag: 1, p: PrioSpec::Val(if pattern == 2 { 1 << 15 } else { (n / 16) as i64 }) }],
                        vec![Op::PushDec { t: root, tag: 1, p: PrioSpec::Val(if pattern == 2 { 1 << 18 } else { (n / 3) as i64 }) }],
                        vec![Op::PushDec { t: second, tag: 1, p: PrioSpec::Val(if pattern == 2 { 1 << 14 } else { (n / 24) as i64 }) }],
                        vec![Op::PushDec { t: root, tag: 1, p: PrioSpec::BelowMin(0) }],
                        vec![Op::PushDec { t: second, tag: 1, p: PrioSpec::BelowMin(0) }],
                        vec![Op::PushInc { t: deep, tag: 1, p: PrioSpec::AboveMax(0) }],
                        vec![Op::PushDec { t: Target::Max, tag: 1, p: PrioSpec::EqMin }],
                        vec![Op::PushInc { t: Target::Min, tag: 1, p: PrioSpec::EqMax }],
                    ],
                    _ => vec![
                        vec![Op::Change { t: root, p: PrioSpec::Val(if pattern == 2 { 1 << 15 } else { (n / 16) as i64 }), by_ref: true }],
                        vec![Op::Change { t: root, p: PrioSpec::BelowMin(0), by_ref: true }],
                        vec![Op::Pop { end: End::Max }, Op::Pop { end: End::Min }],
                        vec![Op::Change { t: deep, p: PrioSpec::AboveMax(0), by_ref: true }],
                        vec![Op::Remove { t: root, by_ref: true }],
                        vec![Op::PopIf { end: End::Max, ans: false, rw: Rewrite::BelowMin, tagw: None }],
                        vec![Op::Change { t: Target::Max, p: PrioSpec::EqMin, by_ref: false }, Op::Change { t: Target::Min, p: PrioSpec::AboveMax(1), by_ref: false }],
                    ],
                };
                for o in ops {
                    let mut c = mk(kind, CtorKind::FromVec, big(n, pattern), o);
                    c.universe = 1024;
                    c.drain_every = 255; // the raw order check escalates to the behavioural ones
                    v.push(c);
                }
            }
        }
    }
    v
}

/// C06: queues filled in sorted order (the way schedulers and merges fill them: descending, ascending,
/// all equal, few values), every size up to 130 and a sparse set up to 1100, one late disturbance near
/// the bottom of the heap, then every form of sorted consumption. A heap vector that is already sorted
/// is the shape on which shortcuts of the sort loops are tempting.
fn sorted_fill_sweep() -> Vec<Case> {
    let mut v = Vec::new();
    let fill = |n: usize, pattern: u8| -> Vec<(u32, u32, i64)> {
        (0..n)
            .map(|i| {
                let p = match pattern {
                    0 => 2 * (n - i) as i64, // descending, with gaps
                    1 => 2 * i as i64,       // ascending
                    2 => 10,                 // all equal
                    _ => 2 * ((n - i) / 8) as i64, // descending in runs of eight
                };
                (i as u32, 0, p)
            })
            .collect()
    };
    for kind in [Kind::PQ, Kind::DPQ] {
        for n in 2..=1100usize {
            if n > 130 && !(n % 64 <= 1 || n % 64 == 63 || n % 97 == 0) {
                continue;
            }
            for pattern in 0..4u8 {
                let last = Target::Pos(65535);
                let late: Vec<Vec<Op>> = vec![
                    vec![],
                    // above the element pushed before it, not above its parent
                    vec![Op::Push { t: Target::Id(5000), tag: 1, p: PrioSpec::Val(if pattern == 1 { (n / 2) as i64 * 2 - 1 } else { 3 }) }],
                    vec![Op::Push { t: Target::Id(5000), tag: 1, p: PrioSpec::Val(n as i64 / 2) }],
                    vec![Op::Push { t: Target::Id(5000), tag: 1, p: PrioSpec::EqMax }],
                    vec![Op::Push { t: Target::Id(5000), tag: 1, p: PrioSpec::BelowMin(1) }, Op::Push { t: Target::Id(5001), tag: 1, p: PrioSpec::Val(5) }],
                    vec![Op::Change { t: last, p: PrioSpec::Val(5), by_ref: true }],
                    vec![Op::Change { t: last, p: PrioSpec::EqParent, by_ref: true }],
                    vec![Op::Pop { end: End::Max }, Op::Push { t: Target::Id(5000), tag: 1, p: PrioSpec::Val(7) }],
                    vec![Op::Remove { t: Target::Pos(65535 / 2), by_ref: true }],
                ];
                for (li, l) in late.into_iter().enumerate() {
                    // the exhaustive part covers n <= 5 with every program; here one long program per form
                    if n > 130 && li % 2 == 1 && pattern % 2 == 1 {
                        continue;
                    }
                    let mut ops = l;
                    ops.push(Op::Sorted { how: SortedHow::DescVec, prog: vec![] });
                    ops.push(Op::Sorted { how: SortedHow::AscVec, prog: vec![] });
                    let prog: Vec<ItCall> = (0..n + 3).map(|j| if kind == Kind::DPQ && (j + li) % 5 >= 3 { ItCall::Back } else { ItCall::Next }).collect();
                    ops.push(Op::Sorted { how: SortedHow::Iter, prog });
                    let ctor = if (n + li) % 3 == 0 { CtorKind::FromVec } else { CtorKind::New };
                    let mut c = mk(kind, ctor, fill(n, pattern), ops);
                    c.universe = 6000;
                    c.drain_every = 255;
                    v.push(c);
                }
            }
        }
    }
    v
}
