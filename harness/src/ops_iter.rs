//! retain / retain_mut / iter_mut, the non-mutable iterators, std adaptor compositions and sorted
//! consumption.

use crate::case::*;
use crate::interp::*;
use crate::model::Model;
#[allow(unused_imports)]
use crate::interp::CUR_STEP;
use crate::oracle::*;
use crate::queue::*;
use crate::types::*;

/// one observed call on an iterator
#[derive(Clone, Debug)]
pub enum Obs {
    Yield { e: Elem, back: bool, ak: usize, ap: usize },
    NoneRet { back: bool },
    Probe { len: Option<usize>, hint: (usize, Option<usize>) },
}

/// Validate an observation log of an iterator over `content` (C09 / C13 contract).
/// `sorted`: 0 = arbitrary order, 1 = next yields max (PQ sorted), 2 = next yields min, back yields max
pub fn validate_log(
    log: &[Obs],
    content: &Model,
    g_contract: Group,
    sorted: u8,
    check_addr: bool,
    out: &mut Vec<RawFail>,
) -> (usize, bool) {
    let n = content.len();
    let mut rem = content.clone();
    let mut yielded = 0usize;
    let mut exhausted = false;
    let mut addrs_k: Vec<usize> = Vec::new();
    let mut addrs_p: Vec<usize> = Vec::new();
    let mut seen: std::collections::BTreeSet<u32> = Default::default();
    for (ci, o) in log.iter().enumerate() {
        match o {
            Obs::Yield { e, back, ak, ap } => {
                if exhausted {
                    out.push((g_contract, "yield_after_none", format!("call #{} yielded {:?} after the iterator had returned None", ci, e)));
                }
                if seen.contains(&e.0) {
                    out.push((
                        if check_addr { Group::Alias } else { g_contract },
                        "yielded_twice",
                        format!("call #{} ({}) yielded id {} a second time", ci, if *back { "next_back" } else { "next" }, e.0),
                    ));
                } else if check_addr && (addrs_k.contains(ak) || addrs_p.contains(ap)) {
                    out.push((Group::Alias, "same_address_twice", format!("call #{} yielded a reference to an address already handed out", ci)));
                }
                seen.insert(e.0);
                addrs_k.push(*ak);
                addrs_p.push(*ap);
                match rem.get(e.0) {
                    None => {
                        if !content.contains(e.0) {
                            out.push((g_contract, "yield_not_stored", format!("call #{} yielded {:?} which is not stored", ci, e)));
                        }
                    }
                    Some((t, p)) => {
                        if p != e.2 {
                            out.push((Group::Content, "yield_prio", format!("call #{} yielded {:?}, stored priority {}", ci, e, p)));
                        } else if t != e.1 {
                            out.push((Group::Tag, "yield_tag", format!("call #{} yielded {:?}, stored payload {}", ci, e, t)));
                        }
                        if sorted != 0 {
                            let want = match (sorted, back) {
                                (1, _) => rem.max_prio(),
                                (2, false) => rem.min_prio(),
                                _ => rem.max_prio(),
                            };
                            if want != Some(e.2) {
                                out.push((
                                    Group::Sorted,
                                    "sorted_not_extreme",
                                    format!(
                                        "sorted iterator call #{} ({}) yielded priority {} but the extreme of the remaining {} is {:?}",
                                        ci,
                                        if *back { "next_back" } else { "next" },
                                        e.2,
                                        rem.len(),
                                        want
                                    ),
                                ));
                            }
                        }
                        rem.remove(e.0);
                    }
                }
                yielded += 1;
            }
            Obs::NoneRet { back } => {
                if !exhausted && yielded < n {
                    out.push((
                        g_contract,
                        "premature_none",
                        format!("call #{} ({}) returned None after {} of {} elements", ci, if *back { "next_back" } else { "next" }, yielded, n),
                    ));
                }
                exhausted = true;
            }
            Obs::Probe { len, hint } => {
                let r = n.saturating_sub(yielded);
                if let Some(l) = len {
                    if *l != r {
                        out.push((g_contract, "len_wrong", format!("probe at call #{}: len()={} but {} elements remain", ci, l, r)));
                    }
                    if *hint != (r, Some(r)) {
                        out.push((
                            g_contract,
                            "size_hint_inexact",
                            format!("probe at call #{}: size_hint()={:?} on an ExactSizeIterator with {} remaining", ci, hint, r),
                        ));
                    }
                } else if hint.0 > r || hint.1.map_or(false, |h| h < r) {
                    out.push((g_contract, "size_hint_wrong", format!("probe at call #{}: size_hint()={:?} but {} elements remain", ci, hint, r)));
                }
            }
        }
    }
    (yielded, exhausted)
}

#[derive(Debug, PartialEq, Eq, Clone)]
pub struct AdaptOut {
    pub len: Option<usize>,
    pub hint: (usize, Option<usize>),
    pub seq: Vec<(i64, Elem)>,
}

fn hint_ok(h: (usize, Option<usize>), n: usize) -> bool {
    h.0 <= n && h.1.map_or(true, |u| u >= n)
}

/// Compositions for iterators that are DoubleEnded + ExactSize (applied identically to the
/// iterator under test and to `Vec::into_iter` as the reference).
pub fn adapt_full<I, T, C>(it: I, cv: C, comp: Comp, a: usize, b: usize) -> AdaptOut
where
    I: DoubleEndedIterator<Item = T> + ExactSizeIterator,
    C: Fn(T) -> Elem + Copy,
{
    let plain = |x: T| (-1i64, cv(x));
    macro_rules! fin {
        ($it:expr, $f:expr) => {{
            let it = $it;
            let len = it.len();
            let hint = it.size_hint();
            AdaptOut { len: Some(len), hint, seq: it.map($f).collect() }
        }};
    }
    match comp {
        Comp::Take => fin!(it.take(a), plain),
        Comp::Skip => fin!(it.skip(a), plain),
        Comp::StepBy => fin!(it.step_by(a.max(1)), plain),
        Comp::Zip => fin!(it.zip(0..b), |(x, i)| (i as i64, cv(x))),
        Comp::Peekable => {
            let mut p = it.peekable();
            let first = p.peek().is_some();
            let len = p.len();
            let hint = p.size_hint();
            let mut seq: Vec<(i64, Elem)> = p.map(plain).collect();
            if first {
                seq.push((-2, (0, 0, 0)));
            }
            AdaptOut { len: Some(len), hint, seq }
        }
        Comp::Enumerate => fin!(it.enumerate(), |(i, x)| (i as i64, cv(x))),
        Comp::Map => fin!(it.map(|x| { let e = cv(x); (e.0, e.1, e.2.wrapping_add(1)) }), |e| (-1i64, e)),
        Comp::Rev => fin!(it.rev(), plain),
        Comp::SkipTake => fin!(it.skip(a).take(b), plain),
        Comp::RevTake => fin!(it.rev().take(a), plain),
        Comp::EnumerateRev => fin!(it.enumerate().rev(), |(i, x)| (i as i64, cv(x))),
        Comp::ZipRev => fin!(it.zip(0..b).rev(), |(x, i)| (i as i64, cv(x))),
        Comp::SkipRev => fin!(it.skip(a).rev(), plain),
        Comp::Chain => {
            let c = it.map(cv).chain(std::iter::once((u32::MAX, 0, 0)));
            let hint = c.size_hint();
            AdaptOut { len: None, hint, seq: c.map(|e| (-1i64, e)).collect() }
        }
        Comp::Rposition => {
            let mut it = it;
            let want = a as u32;
            let mut it = it.map(cv);
            let r = it.rposition(|x| x.0 % 4 == want % 4);
            AdaptOut { len: None, hint: (0, None), seq: vec![(r.map_or(-1, |x| x as i64), (0, 0, 0))] }
        }
        Comp::TakeRev => fin!(it.take(a).rev(), plain),
        Comp::StepByRev => fin!(it.step_by(a.max(1)).rev(), plain),
        Comp::Last => {
            let hint = it.size_hint();
            let l = it.last();
            AdaptOut { len: None, hint, seq: l.map(plain).into_iter().collect() }
        }
        Comp::Nth => {
            let mut it = it;
            let x = it.nth(a);
            let len = it.len();
            let hint = it.size_hint();
            let mut seq: Vec<(i64, Elem)> = x.map(|e| (-3, cv(e))).into_iter().collect();
            seq.extend(it.map(plain));
            AdaptOut { len: Some(len), hint, seq }
        }
        Comp::NthBack => {
            let mut it = it;
            let x = it.nth_back(a);
            let len = it.len();
            let hint = it.size_hint();
            let mut seq: Vec<(i64, Elem)> = x.map(|e| (-3, cv(e))).into_iter().collect();
            seq.extend(it.map(plain));
            AdaptOut { len: Some(len), hint, seq }
        }
        Comp::Count => {
            let hint = it.size_hint();
            let c = it.count();
            AdaptOut { len: None, hint, seq: vec![(c as i64, (0, 0, 0))] }
        }
        Comp::Fold => {
            let hint = it.size_hint();
            let s = it.fold(0i64, |acc, x| acc.wrapping_mul(31).wrapping_add(cv(x).0 as i64));
            AdaptOut { len: None, hint, seq: vec![(s, (0, 0, 0))] }
        }
        Comp::CollectVec => {
            let hint = it.size_hint();
            let v: Vec<Elem> = it.map(cv).collect();
            AdaptOut { len: Some(v.len()), hint, seq: v.into_iter().map(|e| (-1i64, e)).collect() }
        }
        Comp::NthThenNthBack | Comp::NextsThenNthBack | Comp::BacksThenNth => {
            let mut it = it;
            let mut seq: Vec<(i64, Elem)> = Vec::new();
            match comp {
                Comp::NthThenNthBack => {
                    seq.extend(it.nth(a).map(|e| (-3, cv(e))));
                    seq.extend(it.nth_back(b).map(|e| (-4, cv(e))));
                }
                Comp::NextsThenNthBack => {
                    for _ in 0..a {
                        seq.extend(it.next().map(|e| (-5, cv(e))));
                    }
                    seq.extend(it.nth_back(b).map(|e| (-4, cv(e))));
                }
                _ => {
                    for _ in 0..a {
                        seq.extend(it.next_back().map(|e| (-6, cv(e))));
                    }
                    seq.extend(it.nth(b).map(|e| (-3, cv(e))));
                }
            }
            let len = it.len();
            let hint = it.size_hint();
            seq.extend(it.map(plain));
            AdaptOut { len: Some(len), hint, seq }
        }
        Comp::SkipStepBy => fin!(it.skip(a).step_by(b.max(1)), plain),
        Comp::RevSkip => fin!(it.rev().skip(a), plain),
        Comp::RevStepBy => fin!(it.rev().step_by(a.max(1)), plain),
        Comp::Rfold => {
            let hint = it.size_hint();
            let s = it.rfold(0i64, |acc, x| acc.wrapping_mul(31).wrapping_add(cv(x).0 as i64));
            AdaptOut { len: None, hint, seq: vec![(s, (0, 0, 0))] }
        }
        Comp::FindThenRest | Comp::RfindThenRest | Comp::PositionThenRest => {
            let mut it = it.map(cv);
            let want = (a % 4) as u32;
            let mut seq: Vec<(i64, Elem)> = Vec::new();
            match comp {
                Comp::FindThenRest => seq.extend(it.find(|x| x.0 % 4 == want).map(|e| (-7, e))),
                Comp::RfindThenRest => seq.extend(it.rfind(|x| x.0 % 4 == want).map(|e| (-8, e))),
                _ => seq.push((it.position(|x| x.0 % 4 == want).map_or(-1, |p| p as i64), (0, 0, 0))),
            }
            let len = it.len();
            let hint = it.size_hint();
            seq.extend(it.map(|e| (-1i64, e)));
            AdaptOut { len: Some(len), hint, seq }
        }
        Comp::NextsThenCount => {
            let mut it = it;
            let mut seq: Vec<(i64, Elem)> = Vec::new();
            for _ in 0..a {
                seq.extend(it.next().map(|e| (-5, cv(e))));
            }
            let len = it.len();
            let hint = it.size_hint();
            seq.push((it.count() as i64, (0, 0, 0)));
            AdaptOut { len: Some(len), hint, seq }
        }
        Comp::BothEndsThenFold | Comp::BothEndsThenCount => {
            let mut it = it;
            let mut seq: Vec<(i64, Elem)> = Vec::new();
            for _ in 0..a {
                seq.extend(it.next().map(|e| (-5, cv(e))));
            }
            for _ in 0..b {
                seq.extend(it.next_back().map(|e| (-6, cv(e))));
            }
            let len = it.len();
            let hint = it.size_hint();
            if comp == Comp::BothEndsThenFold {
                let mut ids = Vec::new();
                let n = it.fold(0usize, |acc, x| {
                    ids.push(cv(x));
                    acc + 1
                });
                seq.extend(ids.into_iter().map(|e| (-1i64, e)));
                seq.push((n as i64, (0, 0, 0)));
            } else {
                seq.push((it.count() as i64, (0, 0, 0)));
            }
            AdaptOut { len: Some(len), hint, seq }
        }
        Comp::BacksThenFold | Comp::BacksThenCount | Comp::BacksThenLast | Comp::BacksThenForEach | Comp::NextsThenRfold | Comp::NextsThenLast => {
            let mut it = it;
            let mut seq: Vec<(i64, Elem)> = Vec::new();
            let front = matches!(comp, Comp::NextsThenRfold | Comp::NextsThenLast);
            for _ in 0..a {
                if front {
                    seq.extend(it.next().map(|e| (-5, cv(e))));
                } else {
                    seq.extend(it.next_back().map(|e| (-6, cv(e))));
                }
            }
            let len = it.len();
            let hint = it.size_hint();
            match comp {
                Comp::BacksThenFold => {
                    let mut ids = Vec::new();
                    let n = it.fold(0usize, |acc, x| {
                        ids.push(cv(x));
                        acc + 1
                    });
                    seq.extend(ids.into_iter().map(|e| (-1i64, e)));
                    seq.push((n as i64, (0, 0, 0)));
                }
                Comp::BacksThenForEach => {
                    let mut ids = Vec::new();
                    it.for_each(|x| ids.push(cv(x)));
                    seq.extend(ids.into_iter().map(|e| (-1i64, e)));
                }
                Comp::BacksThenCount => seq.push((it.count() as i64, (0, 0, 0))),
                Comp::NextsThenRfold => {
                    let mut ids = Vec::new();
                    it.rfold((), |_, x| ids.push(cv(x)));
                    seq.extend(ids.into_iter().map(|e| (-1i64, e)));
                }
                _ => seq.extend(it.last().map(|e| (-9, cv(e)))),
            }
            AdaptOut { len: Some(len), hint, seq }
        }
    }
}

/// Compositions available on a plain Iterator (the PriorityQueue sorted iterator).
pub fn adapt_plain<I: Iterator<Item = T>, T, C: Fn(T) -> Elem + Copy>(it: I, cv: C, comp: Comp, a: usize, b: usize) -> Option<AdaptOut> {
    let plain = |x: T| (-1i64, cv(x));
    macro_rules! fin {
        ($it:expr, $f:expr) => {{
            let it = $it;
            let hint = it.size_hint();
            Some(AdaptOut { len: None, hint, seq: it.map($f).collect() })
        }};
    }
    match comp {
        Comp::Take => fin!(it.take(a), plain),
        Comp::Skip => fin!(it.skip(a), plain),
        Comp::StepBy => fin!(it.step_by(a.max(1)), plain),
        Comp::Zip => fin!(it.zip(0..b), |(x, i)| (i as i64, cv(x))),
        Comp::Enumerate => fin!(it.enumerate(), |(i, x)| (i as i64, cv(x))),
        Comp::Map => fin!(it.map(|x| { let e = cv(x); (e.0, e.1, e.2.wrapping_add(1)) }), |e| (-1i64, e)),
        Comp::SkipTake => fin!(it.skip(a).take(b), plain),
        Comp::Chain => fin!(it.map(cv).chain(std::iter::once((u32::MAX, 0, 0))), |e| (-1i64, e)),
        Comp::Last => {
            let hint = it.size_hint();
            Some(AdaptOut { len: None, hint, seq: it.last().map(plain).into_iter().collect() })
        }
        Comp::Nth => {
            let mut it = it;
            let x = it.nth(a);
            let hint = it.size_hint();
            let mut seq: Vec<(i64, Elem)> = x.map(|e| (-3, cv(e))).into_iter().collect();
            seq.extend(it.map(plain));
            Some(AdaptOut { len: None, hint, seq })
        }
        Comp::Count => {
            let hint = it.size_hint();
            let c = it.count();
            Some(AdaptOut { len: None, hint, seq: vec![(c as i64, (0, 0, 0))] })
        }
        Comp::Fold => {
            let hint = it.size_hint();
            let s = it.fold(0i64, |acc, x| acc.wrapping_mul(31).wrapping_add(cv(x).0 as i64));
            Some(AdaptOut { len: None, hint, seq: vec![(s, (0, 0, 0))] })
        }
        Comp::CollectVec => {
            let hint = it.size_hint();
            let v: Vec<Elem> = it.map(cv).collect();
            Some(AdaptOut { len: None, hint, seq: v.into_iter().map(|e| (-1i64, e)).collect() })
        }
        Comp::SkipStepBy => fin!(it.skip(a).step_by(b.max(1)), plain),
        Comp::FindThenRest | Comp::PositionThenRest => {
            let mut it = it.map(cv);
            let want = (a % 4) as u32;
            let mut seq: Vec<(i64, Elem)> = Vec::new();
            if comp == Comp::FindThenRest {
                seq.extend(it.find(|x| x.0 % 4 == want).map(|e| (-7, e)));
            } else {
                seq.push((it.position(|x| x.0 % 4 == want).map_or(-1, |p| p as i64), (0, 0, 0)));
            }
            let hint = it.size_hint();
            seq.extend(it.map(|e| (-1i64, e)));
            Some(AdaptOut { len: None, hint, seq })
        }
        Comp::NextsThenCount => {
            let mut it = it;
            let mut seq: Vec<(i64, Elem)> = Vec::new();
            for _ in 0..a {
                seq.extend(it.next().map(|e| (-5, cv(e))));
            }
            let hint = it.size_hint();
            seq.push((it.count() as i64, (0, 0, 0)));
            Some(AdaptOut { len: None, hint, seq })
        }
        Comp::NextsThenLast => {
            let mut it = it;
            let mut seq: Vec<(i64, Elem)> = Vec::new();
            for _ in 0..a {
                seq.extend(it.next().map(|e| (-5, cv(e))));
            }
            let hint = it.size_hint();
            seq.extend(it.last().map(|e| (-9, cv(e))));
            Some(AdaptOut { len: None, hint, seq })
        }
        _ => None,
    }
}

impl<'c, Q: Queue> Interp<'c, Q> {
    pub fn do_retain(&mut self, mask: u64) {
        let before = self.model.clone();
        let mut log: Vec<Elem> = Vec::new();
        self.q.retain(|k, p| {
            tick(FaultKind::Callback);
            log.push(elem(k, p));
            bit(mask, k.id)
        });
        self.check_pred_log(log, &before, "retain");
        let mut dropped = 0;
        for (id, _, _) in before.elems() {
            if !bit(mask, id) {
                self.model.remove(id);
                self.removed.insert(id);
                dropped += 1;
            }
        }
        if dropped > 0 && !self.model.is_empty() {
            self.stats.hit("retain_drop_and_keep");
            self.mark_disturb();
        }
        self.stats.hit("bulk_mutation");
        self.force_drain = true;
    }

    fn check_pred_log(&mut self, mut log: Vec<Elem>, before: &Model, what: &str) {
        log.sort_unstable();
        let want = before.elems();
        if log != want {
            let same_ids = log.iter().map(|e| e.0).eq(want.iter().map(|e| e.0));
            let same_ip = log.iter().map(|e| (e.0, e.2)).eq(want.iter().map(|e| (e.0, e.2)));
            if same_ip {
                self.fail(Group::Tag, "pred_tag", format!("{}: predicate saw payloads differing from the stored ones", what));
            } else {
                self.fail(
                    Group::Pred,
                    if same_ids { "pred_wrong_priority" } else { "pred_not_once_each" },
                    format!("{}: predicate was shown {:?} but the queue held {:?}", what, log.iter().take(24).collect::<Vec<_>>(), want.iter().take(24).collect::<Vec<_>>()),
                );
            }
        }
    }

    pub fn do_retain_mut(&mut self, mask: u64, rw: Rewrite, rwmask: u64, tagw: Option<u32>) {
        let before = self.model.clone();
        let r = self.resolve_rw(rw);
        let mut log: Vec<Elem> = Vec::new();
        self.q.retain_mut(|k, p| {
            tick(FaultKind::Callback);
            log.push(elem(k, p));
            if bit(rwmask, k.id) {
                p.v = r.apply(k.id, p.v);
                if let Some(t) = tagw {
                    k.tag = t;
                }
            }
            bit(mask, k.id)
        });
        self.check_pred_log(log, &before, "retain_mut");
        let mut dropped = 0;
        let mut rewrote = 0;
        for (id, tag, p) in before.elems() {
            if !bit(mask, id) {
                self.model.remove(id);
                self.removed.insert(id);
                dropped += 1;
            } else if bit(rwmask, id) {
                let np = r.apply(id, p);
                if np != p {
                    rewrote += 1;
                }
                self.model.set(id, tagw.unwrap_or(tag), np);
            }
        }
        if dropped > 0 && !self.model.is_empty() {
            self.stats.hit("retain_drop_and_keep");
            self.mark_disturb();
        }
        if rewrote > 0 {
            self.stats.hit("retain_mut_rewrite");
            self.mark_disturb();
            if dropped == 0 {
                self.stats.hit("retain_mut_rewrite_no_drop");
            }
        }
        self.stats.hit("bulk_mutation");
        self.force_drain = true;
    }

    pub fn do_iter_mut(&mut self, prog: &[ItCall], rw: Rewrite, rwmask: u64, tagw: Option<u32>, end: EndHow, via_into: bool, late: bool) {
        let before = self.model.clone();
        let r = self.resolve_rw(rw);
        let n = before.len();
        let mut log: Vec<Obs> = Vec::new();
        let mut writes: Vec<(u32, u32, i64)> = Vec::new();
        let mut had_next = false;
        let mut had_back = false;
        {
            let mut held: Vec<(&mut Key, &mut Prio)> = Vec::new();
            let mut it = if via_into { self.q.mut_into_iter() } else { self.q.iter_mut() };
            for c in prog.iter() {
                match c {
                    ItCall::Next | ItCall::Back => {
                        let back = *c == ItCall::Back;
                        let r = if back {
                            match Q::iter_mut_back(&mut it) {
                                Some(r) => r,
                                None => continue,
                            }
                        } else {
                            it.next()
                        };
                        match r {
                            Some((k, p)) => {
                                if held.len() < n {
                                    if back {
                                        had_back = true
                                    } else {
                                        had_next = true
                                    }
                                }
                                log.push(Obs::Yield {
                                    e: (k.id, k.tag, p.v),
                                    back,
                                    ak: k as *const Key as usize,
                                    ap: p as *const Prio as usize,
                                });
                                held.push((k, p));
                            }
                            None => log.push(Obs::NoneRet { back }),
                        }
                    }
                    ItCall::Probe => {
                        let (len, hint) = Q::iter_mut_len(&it);
                        log.push(Obs::Probe { len, hint });
                    }
                }
            }
            // `late`: the iterator goes away first (it is consumed by e.g. collect()); the references
            // it yielded are still alive and are written through afterwards
            let mut it = Some(it);
            if late {
                match end {
                    EndHow::Drop => drop(it.take()),
                    EndHow::Forget => std::mem::forget(it.take()),
                }
            }
            // write through every reference, as a client would.
            // (If the iterator handed out an element twice the second write lands on the rewritten
            // value, so the aliasing also shows as a content difference.)
            let mut done = std::collections::BTreeSet::new();
            for (k, p) in held.iter_mut() {
                if bit(rwmask, k.id) {
                    let np = r.apply(k.id, p.v);
                    p.v = np;
                    if let Some(t) = tagw {
                        k.tag = t;
                    }
                    if done.insert(k.id) {
                        writes.push((k.id, k.tag, np));
                    }
                }
            }
            drop(held);
            if let Some(it) = it {
                match end {
                    EndHow::Drop => drop(it),
                    EndHow::Forget => std::mem::forget(it),
                }
            }
        }
        let mut out = Vec::new();
        let (yielded, exhausted) = validate_log(&log, &before, Group::IterMutContract, 0, true, &mut out);
        self.fails.extend(out);
        let mut changed = 0;
        for (id, tag, np) in writes {
            if let Some((_, op)) = self.model.get(id) {
                if op != np {
                    changed += 1;
                }
                self.model.set(id, tag, np);
            }
        }
        if n >= 2 && yielded >= 2 {
            self.stats.hit("iter_mut_two_yielded");
        }
        if had_next && had_back {
            self.stats.hit("iter_mut_mixed_ends");
        }
        if exhausted {
            self.stats.hit("iter_mut_exhausted");
        }
        if yielded > 0 && yielded < n {
            self.stats.hit("iter_mut_partial");
        }
        if changed > 0 {
            self.stats.hit("iter_mut_rewrite");
            self.mark_disturb();
            if late {
                self.stats.hit("iter_mut_late_write_changed");
                // known finding F7: judged at this step; afterwards the order is unspecified
                self.pending_order_off = true;
            }
        }
        match end {
            EndHow::Drop => {
                if !self.order_on {
                    self.order_on = true;
                }
                self.force_drain = true;
            }
            EndHow::Forget => {
                self.stats.hit("iter_mut_leaked");
                if changed > 0 {
                    self.order_on = false;
                }
            }
        }
        self.stats.hit("bulk_mutation");
    }

    /// iter_mut driven by for_each / fold / take / skip / step_by / a `for` loop over `&mut q`, the
    /// priorities being written from inside the closure (the iterator is alive during every write)
    pub fn do_iter_mut_each(&mut self, how: u8, k: u8, rw: Rewrite, rwmask: u64) {
        let before = self.model.clone();
        let n = before.len();
        let r = self.resolve_rw(rw);
        let k = (k as usize) % (n + 2);
        let mut visited: Vec<(u32, u32, i64, i64)> = Vec::new();
        self.q.iter_mut_each(how, k, &mut |key: &mut Key, p: &mut Prio| {
            // no fault site here: a panic while the iter_mut guard is alive makes its Drop rebuild the
            // heap during unwinding, and a second panic there is a (safe) abort, not C10's business
            let old = p.v;
            if bit(rwmask, key.id) {
                p.v = r.apply(key.id, old);
            }
            visited.push((key.id, key.tag, old, p.v));
        });
        let matching = before.m.keys().any(|id| *id as usize % (k + 1) == 0) as usize;
        let want_count = match how % 16 {
            8 | 9 | 10 => (k < n) as usize,
            11 | 15 => matching,
            12 => n.min(1),
            13 => (k < n) as usize + (k + 1 < n) as usize,
            14 => k.min(n) + (k < n) as usize,
            h => match h % 8 {
                3 => k.min(n),
                4 => n - k.min(n),
                5 => (n + k) / (k + 1),
                _ => n,
            },
        };
        if how % 16 >= 8 {
            self.stats.hit("iter_mut_single_reference_write");
        }
        let mut ids: Vec<u32> = visited.iter().map(|v| v.0).collect();
        ids.sort_unstable();
        let dup = ids.windows(2).any(|w| w[0] == w[1]);
        if dup {
            self.fail(Group::Alias, "each_visited_twice", format!("iter_mut internal iteration (how {}) visited an element twice: {:?}", how % 16, ids));
        } else if visited.len() != want_count {
            self.fail(
                Group::IterMutContract,
                "each_count",
                format!("iter_mut internal iteration (how {}, k {}) visited {} of {} elements, expected {}", how % 16, k, visited.len(), n, want_count),
            );
        }
        let mut changed = 0;
        for (id, tag, old, new) in visited {
            match before.get(id) {
                None => self.fail(Group::IterMutContract, "each_not_stored", format!("iter_mut visited ({},{}) which is not stored", id, old)),
                Some((t, p)) => {
                    if p != old {
                        self.fail(Group::Content, "each_prio", format!("iter_mut showed priority {} for item {}, stored {}", old, id, p));
                    } else if t != tag {
                        self.fail(Group::Tag, "each_tag", format!("iter_mut showed payload {} for item {}, stored {}", tag, id, t));
                    }
                    if new != old {
                        changed += 1;
                    }
                    self.model.set_prio(id, new);
                }
            }
        }
        if changed > 0 {
            self.stats.hit("iter_mut_rewrite");
            self.stats.hit("iter_mut_each_rewrite");
            self.mark_disturb();
        }
        self.order_on = true;
        self.stats.hit("bulk_mutation");
        self.force_drain = true;
    }

    /// run a call program against a double-ended exact-size iterator
    fn run_prog_full<'a, I, F>(it: &mut I, prog: &[ItCall], f: F) -> Vec<Obs>
    where
        I: DoubleEndedIterator + ExactSizeIterator,
        F: Fn(I::Item) -> (Elem, usize, usize),
    {
        let mut log = Vec::new();
        for c in prog {
            match c {
                ItCall::Next | ItCall::Back => {
                    let back = *c == ItCall::Back;
                    let r = if back { it.next_back() } else { it.next() };
                    match r {
                        Some(x) => {
                            let (e, ak, ap) = f(x);
                            log.push(Obs::Yield { e, back, ak, ap });
                        }
                        None => log.push(Obs::NoneRet { back }),
                    }
                }
                ItCall::Probe => log.push(Obs::Probe { len: Some(it.len()), hint: it.size_hint() }),
            }
        }
        log
    }

    pub fn do_iter_prog(&mut self, which: ItKind, prog: &[ItCall], end: EndHow) {
        let before = self.model.clone();
        let n = before.len();
        let byref = |(k, p): (&Key, &Prio)| (elem(k, p), k as *const Key as usize, p as *const Prio as usize);
        let owned = |(k, p): (Key, Prio)| ((k.id, k.tag, p.v), 0usize, 0usize);
        let log = match which {
            ItKind::Iter => Self::run_prog_full(&mut self.q.iter(), prog, byref),
            ItKind::RefIntoIter => Self::run_prog_full(&mut self.q.ref_into_iter(), prog, byref),
            ItKind::IntoIter => Self::run_prog_full(&mut self.q.clone().into_iter_owned(), prog, owned),
            ItKind::Drain => {
                let mut d = self.q.drain();
                let log = Self::run_prog_full(&mut d, prog, owned);
                match end {
                    EndHow::Drop => drop(d),
                    EndHow::Forget => std::mem::forget(d),
                }
                log
            }
            ItKind::Sorted => {
                self.do_sorted(SortedHow::Iter, prog);
                return;
            }
            ItKind::IterMut => return,
        };
        let mut out = Vec::new();
        let (yielded, exhausted) = validate_log(&log, &before, Group::IterStd, 0, false, &mut out);
        self.fails.extend(out);
        if n >= 2 && yielded >= 1 && log.iter().any(|o| matches!(o, Obs::Probe { .. })) {
            self.stats.hit("iter_probe_after_advance");
        }
        if exhausted {
            self.stats.hit("iter_exhausted");
        }
        if which == ItKind::Drain {
            self.model.clear();
            self.after_special = true;
            self.check_emptied("drain");
            if n >= 2 {
                self.stats.hit("drain_nonempty");
                if yielded < n || end == EndHow::Forget {
                    self.stats.hit("drain_partial_or_leaked");
                }
            }
            if end == EndHow::Forget {
                self.stats.hit("drain_leaked");
            }
        }
    }

    pub fn do_adapt(&mut self, which: ItKind, comp: Comp, a: u8, b: u8) {
        let n = self.model.len();
        // arguments: mostly within reach of the length; the top of the byte range maps to values near
        // usize::MAX (legal for nth/skip/take/step_by, and where cursor arithmetic overflows)
        let huge = |x: u8| -> Option<usize> {
            if x >= 250 {
                Some(usize::MAX - (255 - x) as usize)
            } else {
                None
            }
        };
        let loops = matches!(
            comp,
            Comp::NextsThenNthBack | Comp::BacksThenNth | Comp::NextsThenCount | Comp::BacksThenFold | Comp::BacksThenCount | Comp::BacksThenLast | Comp::BacksThenForEach | Comp::NextsThenRfold | Comp::NextsThenLast | Comp::BothEndsThenFold | Comp::BothEndsThenCount
        );
        let both = matches!(comp, Comp::BothEndsThenFold | Comp::BothEndsThenCount);
        let (a, b) = (
            if loops { (a as usize) % (n + 2) } else { huge(a).unwrap_or((a as usize) % (n + 2)) },
            if matches!(comp, Comp::Zip | Comp::ZipRev) || both { (b as usize) % (n + 3) } else { huge(b).unwrap_or((b as usize) % (n + 3)) },
        );
        if a > n + 2 || b > n + 3 {
            self.stats.hit("adaptor_huge_argument");
        }
        let byref = |(k, p): (&Key, &Prio)| elem(k, p);
        // the reference sequence: the iterator's own order, collected by plain `next` calls
        let (got, reference): (Option<AdaptOut>, Vec<Elem>) = match which {
            ItKind::Iter => (
                Some(adapt_full(self.q.iter(), byref, comp, a, b)),
                {
                    let mut v = Vec::new();
                    let mut it = self.q.iter();
                    while let Some(x) = it.next() {
                        v.push(byref(x));
                    }
                    v
                },
            ),
            ItKind::RefIntoIter => (
                Some(adapt_full(self.q.ref_into_iter(), byref, comp, a, b)),
                {
                    let mut v = Vec::new();
                    let mut it = self.q.ref_into_iter();
                    while let Some(x) = it.next() {
                        v.push(byref(x));
                    }
                    v
                },
            ),
            ItKind::IntoIter => (
                Some(adapt_full(self.q.clone().into_iter_owned(), elem_owned, comp, a, b)),
                {
                    let mut v = Vec::new();
                    let mut it = self.q.clone().into_iter_owned();
                    while let Some(x) = it.next() {
                        v.push(elem_owned(x));
                    }
                    v
                },
            ),
            ItKind::Drain => (
                Some(adapt_full(self.q.clone().drain(), elem_owned, comp, a, b)),
                {
                    let mut v = Vec::new();
                    let mut c = self.q.clone();
                    let mut it = c.drain();
                    while let Some(x) = it.next() {
                        v.push(elem_owned(x));
                    }
                    v
                },
            ),
            ItKind::IterMut => {
                self.opname = "adaptor_iter_mut";
                CUR_STEP.with(|c| c.set((self.step, self.opname)));
                let mut v = Vec::new();
                {
                    let mut c = self.q.clone();
                    let mut it = c.iter_mut();
                    while let Some((k, p)) = it.next() {
                        v.push((k.id, k.tag, p.v));
                    }
                }
                (self.q.clone().iter_mut_adapt(comp, a, b), v)
            }
            ItKind::Sorted => {
                if !self.order_on {
                    // after a leaked iter_mut guard (or late writes) the order is unspecified: the sorted
                    // iterator has no order contract to be judged against
                    return;
                }
                self.opname = "adaptor_sorted";
                CUR_STEP.with(|c| c.set((self.step, self.opname)));
                let mut v = Vec::new();
                let mut it = self.q.clone().into_sorted_iter();
                while let Some(x) = it.next() {
                    v.push(elem_owned(x));
                }
                (self.q.clone().sorted_adapt(comp, a, b), v)
            }
        };
        let Some(got) = got else { return };
        if reference.len() != n {
            // judged by the iterator programs; the differential below would be meaningless
            return;
        }
        let want = if matches!(which, ItKind::Sorted | ItKind::IterMut) && !Q::DOUBLE {
            adapt_plain(reference.into_iter(), |e| e, comp, a, b).unwrap()
        } else {
            adapt_full(reference.into_iter(), |e| e, comp, a, b)
        };
        let (got, want) = if which == ItKind::Sorted {
            // with ties the element chosen from the back need not mirror the one chosen from the
            // front: sorted sequences are compared on priorities
            let proj = |mut o: AdaptOut| {
                for e in o.seq.iter_mut() {
                    if !matches!(comp, Comp::Rposition | Comp::Fold | Comp::Count | Comp::Rfold | Comp::PositionThenRest | Comp::NextsThenCount | Comp::BacksThenFold | Comp::BacksThenCount | Comp::BothEndsThenFold | Comp::BothEndsThenCount) || e.0 < 0 {
                        e.1 = (0, 0, e.1 .2);
                    }
                }
                o
            };
            if matches!(comp, Comp::Rposition | Comp::Fold | Comp::Rfold | Comp::FindThenRest | Comp::RfindThenRest | Comp::PositionThenRest) && self.model.has_ties() {
                return;
            }
            (proj(got), proj(want))
        } else {
            (got, want)
        };
        if which == ItKind::IterMut {
            // C09's business: an element reached twice through an adaptor is the aliasing defect
            let ids: Vec<u32> = got.seq.iter().filter(|e| e.1 != (0, 0, 0) || e.0 < 0).map(|e| e.1 .0).collect();
            let mut d = ids.clone();
            d.sort_unstable();
            d.dedup();
            let plain_seq = !matches!(comp, Comp::Peekable | Comp::Rposition | Comp::Count | Comp::Fold | Comp::Chain | Comp::Rfold | Comp::PositionThenRest | Comp::NextsThenCount | Comp::Map | Comp::BacksThenCount | Comp::BothEndsThenCount);
            if plain_seq && d.len() != ids.len() {
                self.fail(Group::Alias, "adaptor_yielded_twice", format!("iter_mut().{:?}({},{}) handed out an element twice: ids {:?}", comp, a, b, ids));
            } else if got.seq != want.seq || (got.len.is_some() && want.len.is_some() && (got.len != want.len || got.hint != want.hint)) {
                self.fail(
                    Group::IterMutContract,
                    "adaptor_iter_mut",
                    format!("iter_mut().{:?}({},{}) produced {:?} len {:?} hint {:?}; over the plain sequence: {:?} len {:?} hint {:?}", comp, a, b, got.seq, got.len, got.hint, want.seq, want.len, want.hint),
                );
            }
            self.stats.hit("adaptor_iter_mut_run");
            return;
        }
        if got.seq != want.seq {
            // same elements in another order from a sorted iterator: an ordering defect (C06);
            // anything else (lost, duplicated, invented elements): an iterator-contract defect (C13)
            let mut g = got.seq.clone();
            let mut w = want.seq.clone();
            g.sort_unstable();
            w.sort_unstable();
            let group = if which == ItKind::Sorted && g == w { Group::Sorted } else { Group::IterStd };
            self.fail(
                group,
                "adaptor_sequence",
                format!("{:?}.{:?}({},{}) produced {:?}, the same composition over the plain sequence gives {:?}", which, comp, a, b, got.seq, want.seq),
            );
        }
        if got.len.is_some() && want.len.is_some() && got.len != want.len {
            self.fail(Group::IterStd, "adaptor_len", format!("{:?}.{:?}({},{}).len() = {:?}, expected {:?}", which, comp, a, b, got.len, want.len));
        }
        if got.len.is_some() && got.hint != want.hint {
            self.fail(
                Group::IterStd,
                "adaptor_size_hint",
                format!("{:?}.{:?}({},{}).size_hint() = {:?}, expected {:?}", which, comp, a, b, got.hint, want.hint),
            );
        }
        if got.len.is_none() && !matches!(comp, Comp::Rposition | Comp::Nth | Comp::NthBack | Comp::Fold | Comp::Last | Comp::Rfold | Comp::FindThenRest | Comp::RfindThenRest | Comp::PositionThenRest | Comp::NextsThenCount | Comp::NthThenNthBack | Comp::NextsThenNthBack | Comp::BacksThenNth | Comp::BacksThenFold | Comp::BacksThenCount | Comp::BacksThenLast | Comp::BacksThenForEach | Comp::NextsThenRfold | Comp::NextsThenLast | Comp::BothEndsThenFold | Comp::BothEndsThenCount) && !hint_ok(got.hint, expected_count(&want, comp)) {
            self.fail(Group::IterStd, "adaptor_size_hint_bound", format!("{:?}.{:?}: size_hint {:?} does not bound the {} items produced", which, comp, got.hint, want.seq.len()));
        }
        self.stats.hit("adaptor_run");
        if n >= 2 && want.len.map_or(true, |l| l != n) {
            self.stats.hit("adaptor_answer_differs_from_n");
        }
    }

    pub fn do_sorted(&mut self, how: SortedHow, prog: &[ItCall]) {
        let n = self.model.len();
        let before = self.model.clone();
        let mut out = Vec::new();
        match how {
            SortedHow::DescVec | SortedHow::AscVec => {
                let asc = how == SortedHow::AscVec;
                let v = if asc {
                    match self.q.clone().into_asc_vec() {
                        Some(v) => v,
                        None => return,
                    }
                } else {
                    self.q.clone().into_desc_vec()
                };
                let ids: Vec<u32> = v.iter().map(|k| k.id).collect();
                let mut sorted_ids = ids.clone();
                sorted_ids.sort_unstable();
                let want_ids: Vec<u32> = before.m.keys().copied().collect();
                if sorted_ids != want_ids {
                    out.push((Group::Sorted, "sorted_vec_content", format!("{:?} returned ids {:?}, stored {:?}", how, ids, want_ids)));
                } else {
                    let ps: Vec<i64> = ids.iter().map(|i| before.get(*i).map_or(0, |x| x.1)).collect();
                    let mono = !self.order_on || ps.windows(2).all(|w| if asc { w[0] <= w[1] } else { w[0] >= w[1] });
                    if !mono {
                        out.push((Group::Sorted, "sorted_vec_order", format!("{:?} returned priorities {:?}", how, ps)));
                    }
                    for k in v.iter() {
                        if before.get(k.id).map(|x| x.0) != Some(k.tag) {
                            out.push((Group::Tag, "sorted_vec_tag", format!("{:?}: payload of {} differs", how, k.id)));
                            break;
                        }
                    }
                }
                self.stats.hit("sorted_vec");
            }
            SortedHow::Iter | SortedHow::IterRev => {
                let rev = how == SortedHow::IterRev && Q::DOUBLE;
                let mut it = self.q.clone().into_sorted_iter();
                let mut log = Vec::new();
                let mut switches = 0;
                let mut last_back: Option<bool> = None;
                for c in prog {
                    match c {
                        ItCall::Next | ItCall::Back => {
                            let mut back = *c == ItCall::Back;
                            if rev {
                                back = !back;
                            }
                            let r = if back {
                                match Q::sorted_back(&mut it) {
                                    Some(r) => r,
                                    None => continue,
                                }
                            } else {
                                it.next()
                            };
                            if last_back.is_some() && last_back != Some(back) && log.iter().filter(|o| matches!(o, Obs::Yield { .. })).count() < n {
                                switches += 1;
                            }
                            last_back = Some(back);
                            match r {
                                Some(x) => log.push(Obs::Yield { e: elem_owned(x), back, ak: 0, ap: 0 }),
                                None => log.push(Obs::NoneRet { back }),
                            }
                        }
                        ItCall::Probe => {
                            let (len, hint) = Q::sorted_len(&it);
                            log.push(Obs::Probe { len, hint });
                        }
                    }
                }
                // probes of the sorted iterators are C13's business (IterStd); order is C06's.
                // Its reported length is part of C06 too for the DPQ iterator.
                let mut o2 = Vec::new();
                validate_log(&log, &before, Group::IterStd, if !self.order_on { 0 } else if Q::DOUBLE { 2 } else { 1 }, false, &mut o2);
                for f in o2 {
                    // element-level defects of a sorted iterator are C06 defects
                    let g = match f.1 {
                        "yielded_twice" | "yield_not_stored" | "premature_none" | "yield_after_none" | "len_wrong" => Group::Sorted,
                        _ => f.0,
                    };
                    out.push((g, f.1, f.2));
                }
                if switches > 0 {
                    self.stats.hit("sorted_direction_switch");
                }
                self.stats.hit("sorted_iter_run");
            }
        }
        if n >= 3 && before.has_ties() {
            self.stats.hit("sorted_with_ties");
        }
        self.fails.extend(out);
    }
}

fn expected_count(want: &AdaptOut, comp: Comp) -> usize {
    match comp {
        Comp::Count => want.seq[0].0 as usize,
        _ => want.seq.len().max(0),
    }
}

