//! pqv: worker / replay binary of the verification harness. Driven by /verif/check.


use pqv::runner::*;
use pqv::{cost, fault, special};

fn arg(args: &[String], name: &str) -> Option<String> {
    args.iter().position(|a| a == name).and_then(|i| args.get(i + 1).cloned())
}

fn main() {
    let args: Vec<String> = std::env::args().collect();
    install_panic_hook();
    let cmd = args.get(1).map(|s| s.as_str()).unwrap_or("");
    let prop: u8 = arg(&args, "--prop").and_then(|p| p.trim_start_matches('C').parse().ok()).unwrap_or(0);
    let known_path = arg(&args, "--known").unwrap_or_else(|| "/verif/known_findings.jsonl".into());
    match cmd {
        "run" => {
            let a = WorkerArgs {
                prop,
                thorough: arg(&args, "--tier").as_deref() == Some("thorough"),
                seed: arg(&args, "--seed").and_then(|s| s.parse().ok()).unwrap_or(1),
                worker: arg(&args, "--worker").and_then(|s| s.parse().ok()).unwrap_or(0),
                cases: arg(&args, "--cases").and_then(|s| s.parse().ok()).unwrap_or(100),
                work_dir: arg(&args, "--work").unwrap_or_else(|| "/verif/.work".into()),
                replay_dir: arg(&args, "--replays").unwrap_or_else(|| "/verif/.work".into()),
                known_path,
                strict: args.iter().any(|a| a == "--strict"),
                nworkers: arg(&args, "--nworkers").and_then(|s| s.parse().ok()).unwrap_or(16),
            };
            let _ = std::fs::create_dir_all(&a.work_dir);
            let rep = match prop {
                #[cfg(feature = "std")]
                12 => {
                    // Key/&u32 histories, then String items looked up through &str
                    let mut r = run_history_property(&a);
                    let s = special::run_c12_strings(&a);
                    r.evaluations += s.evaluations;
                    r.violations.extend(s.violations);
                    r.harness_bugs.extend(s.harness_bugs);
                    r.extra.insert("string_key_cases".into(), serde_json::json!(s.evaluations));
                    r.extra.insert("string_key_nontrivial".into(), serde_json::json!(s.nontrivial));
                    if r.samples.len() < 5 {
                        r.samples.extend(s.samples.into_iter().take(1));
                    }
                    r
                }
                1 | 2 | 3 | 4 | 6 | 7 | 8 | 9 | 11 | 12 | 13 | 15 | 16 | 17 => run_history_property(&a),
                5 => cost::run_c05(&a),
                10 => fault::run_c10(&a),
                14 => special::run_c14(&a),
                18 => special::run_c18(&a),
                _ => {
                    eprintln!("property {} has no runner", prop);
                    std::process::exit(2);
                }
            };
            let out = arg(&args, "--out").unwrap_or_else(|| format!("{}/w{}.json", a.work_dir, a.worker));
            std::fs::write(&out, serde_json::to_string(&rep).unwrap()).expect("write report");
            if !rep.harness_bugs.is_empty() {
                eprintln!("HARNESS-BUG {}", rep.harness_bugs[0]);
                std::process::exit(3);
            }
            std::process::exit(if rep.violations.is_empty() { 0 } else { 1 });
        }
        "replay" => {
            let file = arg(&args, "--file").expect("--file");
            let text = std::fs::read_to_string(&file).expect("read replay file");
            let strict = args.iter().any(|a| a == "--strict");
            let known = if strict { vec![] } else { load_known(&known_path, &format!("C{:02}", prop)) };
            let res = if prop == 5 { cost::replay_c05(&text) } else if prop == 12 && text.contains("\"double\"") { special::replay_special(prop, &text) } else if prop == 10 { fault::replay_c10(&text) } else if matches!(prop, 14 | 18) { special::replay_special(prop, &text) } else { replay_history(prop, &text, &known) };
            match res {
                Ok(None) => {
                    println!("PASS");
                    std::process::exit(0)
                }
                Ok(Some(f)) => {
                    println!("FAIL signature={} step={} detail={}", f.signature(), f.step, f.detail);
                    std::process::exit(1)
                }
                Err(e) => {
                    eprintln!("HARNESS-BUG {}", e);
                    std::process::exit(3)
                }
            }
        }
        "calibrate" => {
            cost::calibrate(arg(&args, "--cases").and_then(|s| s.parse().ok()).unwrap_or(300), arg(&args, "--tier").as_deref() == Some("thorough"));
        }
        "decode" => {
            // fuzzer artifact (raw bytes) -> JSON case on stdout
            let file = arg(&args, "--file").expect("--file");
            let data = std::fs::read(&file).expect("read artifact");
            match pqv::fuzzdec::decode_case(&data, prop == 10, matches!(prop, 0 | 4 | 10 | 16)) {
                Ok(c) => println!("{}", c.to_json()),
                Err(e) => {
                    eprintln!("cannot decode: {:?}", e);
                    std::process::exit(2);
                }
            }
        }
        "rule" => {
            println!("{}", rule_text(prop));
        }
        _ => {
            eprintln!("usage: pqv run|replay --prop Cxx ...");
            std::process::exit(2);
        }
    }
}
