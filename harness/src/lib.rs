//! pqv: the verification harness as a library (used by the worker binary and by the fuzz target).

pub mod case;
pub mod cost;
pub mod enumerate;
pub mod fault;
pub mod gen;
pub mod huge;
pub mod interp;
pub mod model;
pub mod ops_basic;
pub mod ops_bulk;
pub mod ops_iter;
pub mod oracle;
pub mod queue;
pub mod runner;
pub mod special;
pub mod types;
#[cfg(feature = "fuzz")]
pub mod fuzzdec;
