//! Single-element operations, lookups, predicates on the extreme element, capacity, clear.

use crate::case::*;
use crate::interp::*;
use crate::oracle::*;
use crate::queue::*;
use crate::types::*;

pub const HUGE_AMOUNTS: [usize; 6] = [
    usize::MAX,
    usize::MAX - 1,
    isize::MAX as usize,
    usize::MAX / 2,
    usize::MAX / 24 + 1,
    1usize << 60,
];

impl<'c, Q: Queue> Interp<'c, Q> {
    pub fn apply(&mut self, op: &Op) {
        match op {
            Op::Push { t, tag, p } => self.do_push(*t, *tag, *p, 0),
            Op::PushInc { t, tag, p } => self.do_push(*t, *tag, *p, 1),
            Op::PushDec { t, tag, p } => self.do_push(*t, *tag, *p, -1),
            Op::Change { t, p, by_ref } => self.do_change(*t, *p, *by_ref),
            Op::ChangeBy { t, rw, by_ref } => self.do_change_by(*t, *rw, *by_ref),
            Op::Remove { t, by_ref } => self.do_remove(*t, *by_ref),
            Op::Pop { end } => self.do_pop(*end),
            Op::PopIf { end, ans, rw, tagw } => self.do_pop_if(*end, *ans, *rw, *tagw),
            Op::PeekMut { end, tagw } => self.do_peek_mut(*end, *tagw),
            Op::GetMut { t, tagw, by_ref } => self.do_get_mut(*t, *tagw, *by_ref),
            Op::Get { t, by_ref } => self.do_get(*t, *by_ref),
            Op::Retain { mask } => self.do_retain(*mask),
            Op::RetainMut { mask, rw, rwmask, tagw } => self.do_retain_mut(*mask, *rw, *rwmask, *tagw),
            Op::IterMut { prog, rw, rwmask, tagw, end, via_into, late } => {
                self.do_iter_mut(prog, *rw, *rwmask, *tagw, *end, *via_into, *late)
            }
            Op::IterProg { which, prog, end } => self.do_iter_prog(*which, prog, *end),
            Op::Adapt { which, comp, a, b } => self.do_adapt(*which, *comp, *a, *b),
            Op::Extend { pairs, hint } => self.do_extend(pairs, *hint),
            Op::Append { pairs, swap_roles, mirror, cap } => self.do_append(pairs, *swap_roles, *mirror, *cap),
            Op::RebuildFromVec { extra } => self.do_from_vec(extra),
            Op::RebuildFromIter { extra, hint } => self.do_from_iter(extra, *hint),
            Op::ConvertRound => self.do_convert(),
            Op::Serde { carrier, cross } => self.do_serde(*carrier, *cross),
            Op::CloneReplace => self.do_clone_replace(),
            Op::Clear => self.do_clear(),
            Op::Reserve { how, amt } => self.do_reserve(*how, *amt),
            Op::Shrink => self.do_shrink(),
            Op::Sorted { how, prog } => self.do_sorted(*how, prog),
            Op::EqProbe => self.do_eq_probe(),
            Op::IntoVecRebuild => self.do_into_vec(),
            Op::DeserSeq { pairs, carrier, cross } => self.do_deser_seq(pairs, *carrier, *cross),
            // outside the fault runner the wrapped operation simply runs
            Op::WithFault { op, .. } => self.apply(op),
            Op::DuringUnwind { op } => {
                type Payload = Box<dyn std::any::Any + Send>;
                struct Cleanup<'a, 'c, Q: Queue>(&'a mut Interp<'c, Q>, &'a Op, &'a mut Option<Payload>);
                impl<'a, 'c, Q: Queue> Drop for Cleanup<'a, 'c, Q> {
                    fn drop(&mut self) {
                        // a panic of the operation itself must not escape a destructor during unwinding (that
                        // aborts the process): it is kept and raised again once the harness's own unwinding is over
                        let r = std::panic::catch_unwind(std::panic::AssertUnwindSafe(|| self.0.apply(self.1)));
                        if let Err(e) = r {
                            *self.2 = Some(e);
                        }
                    }
                }
                struct HarnessUnwind;
                self.stats.hit("during_unwind");
                let mut inner: Option<Payload> = None;
                let r = std::panic::catch_unwind(std::panic::AssertUnwindSafe(|| {
                    let _g = Cleanup(self, op, &mut inner);
                    std::panic::resume_unwind(Box::new(HarnessUnwind));
                }));
                debug_assert!(r.is_err());
                if let Some(e) = inner {
                    std::panic::resume_unwind(e);
                }
            }
            Op::IterMutEach { how, k, rw, rwmask } => self.do_iter_mut_each(*how, *k, *rw, *rwmask),
            Op::Snapshot => self.do_snapshot(),
            Op::RestoreFrom => self.do_restore_from(),
        }
    }

    /// classify the slot / position arrangement of a removal (Store::remove fix-up cases)
    fn classify_removal(&mut self, id: u32) {
        if !self.cfg.tables {
            return;
        }
        let s = self.q.snapshot();
        let n = s.heap.len();
        if n == 0 {
            return;
        }
        let Some(pos) = s.entries.iter().position(|e| e.map(|x| x.0) == Some(id)) else {
            return;
        };
        let slot = s.heap[pos];
        let last = n - 1;
        let slot_last = slot == last;
        let pos_last = pos == last;
        if !slot_last {
            self.stats.hit("remove_renames_slot");
        }
        let moved_slot_at_last_pos = s.qp.get(last).copied() == Some(last);
        let last_pos_holds_last_slot = s.heap[last] == last;
        self.stats.hit(match (slot_last, pos_last) {
            (true, true) => "rm_class_slotlast_poslast",
            (true, false) => "rm_class_slotlast",
            (false, true) => "rm_class_poslast",
            (false, false) => {
                if moved_slot_at_last_pos || last_pos_holds_last_slot {
                    "rm_class_inner_lastpair"
                } else {
                    "rm_class_inner"
                }
            }
        });
    }

    pub fn mark_disturb(&mut self) {
        self.disturbed = true;
        self.stats.hit("disturb");
    }
    pub fn mark_extract(&mut self, n_before: usize) {
        if n_before >= 2 {
            self.stats.hit("extract_checked");
            if self.disturbed && n_before >= 3 {
                self.stats.hit("extract_after_disturb");
                self.disturbed = false;
            }
        }
    }

    fn do_push(&mut self, t: Target, tag: u32, p: PrioSpec, dir: i8) {
        let id = self.resolve_target(t);
        let pv = self.resolve_prio(p, id);
        let old = self.model.get(id);
        let k = Key::new(id, tag);
        // the offered priority carries a stamp ignored by Ord/Eq, so that "returns the offered priority"
        // / "returns the old priority" / "leaves the queue untouched" are decidable on ties as well
        let offered_stamp = 0x5000_0000u32 | (self.step as u32 & 0xffff) << 8 | (tag & 0xff);
        let stored_stamp_before = self.q.get_priority(&id).map(|p| p.stamp);
        let pr = Prio::stamped(pv, offered_stamp);
        let got_full = match dir {
            0 => self.q.push(k, pr),
            1 => self.q.push_increase(k, pr),
            _ => self.q.push_decrease(k, pr),
        };
        let got_stamp = got_full.as_ref().map(|x| x.stamp);
        let got = got_full.map(|x| x.v);
        let stored_stamp_after = self.q.get_priority(&id).map(|p| p.stamp);
        let (want, newp) = match (old, dir) {
            (None, _) => (None, Some(pv)),
            (Some((_, o)), 0) => (Some(o), Some(pv)),
            (Some((_, o)), 1) => {
                if pv > o {
                    (Some(o), Some(pv))
                } else {
                    (Some(pv), None)
                }
            }
            (Some((_, o)), _) => {
                if pv < o {
                    (Some(o), Some(pv))
                } else {
                    (Some(pv), None)
                }
            }
        };
        if got != want {
            self.fail(
                Group::Ret,
                "push_ret",
                format!("{}({}, {}) returned {:?}, model says {:?} (stored {:?})", self.opname, id, pv, got, want, old),
            );
        } else if old.is_some() {
            // which of two equal priorities: only meaningful when the values agree
            let accepted = newp.is_some();
            let (want_ret, want_stored) = if accepted { (stored_stamp_before, Some(offered_stamp)) } else { (Some(offered_stamp), stored_stamp_before) };
            if got_stamp != want_ret || stored_stamp_after != want_stored {
                self.fail(
                    Group::Ret,
                    "push_which_priority",
                    format!(
                        "{}({}, {}) on stored {:?}: the call {} the offer, so it must return the {} priority object and leave the {} one stored; returned stamp {:?} (offered {:x}, stored before {:?}), stored afterwards {:?}",
                        self.opname,
                        id,
                        pv,
                        old,
                        if accepted { "accepts" } else { "refuses" },
                        if accepted { "old" } else { "offered" },
                        if accepted { "offered" } else { "old" },
                        got_stamp,
                        offered_stamp,
                        stored_stamp_before,
                        stored_stamp_after
                    ),
                );
            }
        }
        self.tr(TraceEv::OptPrio(got));
        match old {
            None => {
                self.model.set(id, tag, pv);
                self.stats.hit("push_new");
                if self.removed.contains(&id) {
                    self.stats.hit("reinsert_removed");
                }
            }
            Some((_, o)) => {
                if let Some(np) = newp {
                    self.model.set_prio(id, np);
                    self.stats.hit(if np > o {
                        "update_up"
                    } else if np < o {
                        "update_down"
                    } else {
                        "update_same"
                    });
                    if np != o {
                        self.mark_disturb();
                    }
                } else {
                    self.stats.hit(if pv == o { "pushdir_equal_noop" } else { "pushdir_noop" });
                }
                self.stats.hit("update_with_other_tag");
            }
        }
        if dir != 0 && old.is_some() {
            self.stats.hit("pushdir_present");
            self.force_drain = self.force_drain || self.model.len() <= 64;
        }
    }

    fn do_change(&mut self, t: Target, p: PrioSpec, by_ref: bool) {
        let id = self.resolve_target(t);
        let pv = self.resolve_prio(p, id);
        let old = self.model.get(id);
        // the new priority carries a stamp ignored by Ord/Eq: "returns the old priority" and "holds the last
        // one assigned" stay decidable when the two compare equal
        let offered_stamp = 0x6000_0000u32 | (self.step as u32 & 0xffff) << 8 | (id & 0xff);
        let stored_stamp_before = self.q.get_priority(&id).map(|p| p.stamp);
        let got_full = if by_ref {
            self.q.change_priority(&id, Prio::stamped(pv, offered_stamp))
        } else {
            self.q.change_priority(&Key::new(id, 0xdead_0001), Prio::stamped(pv, offered_stamp))
        };
        let got_stamp = got_full.as_ref().map(|x| x.stamp);
        let got = got_full.map(|x| x.v);
        let stored_stamp_after = self.q.get_priority(&id).map(|p| p.stamp);
        let want = old.map(|x| x.1);
        if got != want {
            self.fail(
                Group::Ret,
                "change_priority_ret",
                format!("change_priority({}, {}) returned {:?}, model says {:?}", id, pv, got, want),
            );
        } else if old.is_some() && (got_stamp != stored_stamp_before || stored_stamp_after != Some(offered_stamp)) {
            self.fail(
                Group::Ret,
                "change_priority_which_priority",
                format!(
                    "change_priority({}, {}) on stored {:?} must return the old priority object and store the given one; returned stamp {:?} (given {:x}, stored before {:?}), stored afterwards {:?}",
                    id, pv, old, got_stamp, offered_stamp, stored_stamp_before, stored_stamp_after
                ),
            );
        }
        self.tr(TraceEv::OptPrio(got));
        match old {
            Some((_, o)) => {
                self.model.set_prio(id, pv);
                self.stats.hit(if pv > o {
                    "update_up"
                } else if pv < o {
                    "update_down"
                } else {
                    "update_same"
                });
                self.stats.hit("update_with_other_tag");
                if pv != o {
                    self.mark_disturb();
                }
            }
            None => self.stats.hit("op_on_absent"),
        }
    }

    fn do_change_by(&mut self, t: Target, rw: Rewrite, by_ref: bool) {
        let id = self.resolve_target(t);
        let r = self.resolve_rw(rw);
        let old = self.model.get(id);
        let mut calls = 0u32;
        let mut seen = None;
        let f = |p: &mut Prio| {
            tick(FaultKind::Callback);
            calls += 1;
            seen = Some(p.v);
            p.v = r.apply(id, p.v);
        };
        let got = if by_ref {
            self.q.change_priority_by(&id, f)
        } else {
            self.q.change_priority_by(&Key::new(id, 0xdead_0002), f)
        };
        self.tr(TraceEv::Bool(got));
        match old {
            Some((_, o)) => {
                if !got {
                    self.fail(Group::Ret, "change_by_ret", format!("change_priority_by({}) returned false for a stored item", id));
                }
                if calls != 1 || seen != Some(o) {
                    self.fail(
                        Group::Ret,
                        "change_by_setter",
                        format!("change_priority_by({}): setter called {} times, saw {:?}, stored {}", id, calls, seen, o),
                    );
                }
                let np = r.apply(id, o);
                self.model.set_prio(id, np);
                self.stats.hit(if np > o {
                    "update_up"
                } else if np < o {
                    "update_down"
                } else {
                    "update_same"
                });
                if np != o {
                    self.mark_disturb();
                }
            }
            None => {
                self.stats.hit("op_on_absent");
                if got || calls != 0 {
                    self.fail(
                        Group::Ret,
                        "change_by_absent",
                        format!("change_priority_by({}) on an absent item returned {} and called the setter {} times", id, got, calls),
                    );
                }
            }
        }
    }

    fn do_remove(&mut self, t: Target, by_ref: bool) {
        let id = self.resolve_target(t);
        let old = self.model.get(id);
        if old.is_some() {
            self.classify_removal(id);
        }
        let got = if by_ref {
            self.q.remove(&id)
        } else {
            self.q.remove(&Key::new(id, 0xdead_0003))
        }
        .map(elem_owned);
        let want = old.map(|(tg, p)| (id, tg, p));
        self.tr_elem(got);
        self.cmp_elem(got, want, "remove_ret", &format!("remove({})", id));
        if old.is_some() {
            self.model.remove(id);
            self.removed.insert(id);
            self.stats.hit("remove_present");
            if self.model.len() >= 2 {
                self.mark_disturb();
            }
        } else {
            self.stats.hit("op_on_absent");
        }
    }

    /// exact comparison of a returned element with the model's; payload differences are Tag failures
    pub fn cmp_elem(&mut self, got: Option<Elem>, want: Option<Elem>, clause: &'static str, what: &str) {
        if got == want {
            return;
        }
        match (got, want) {
            (Some(g), Some(w)) if g.0 == w.0 && g.2 == w.2 => self.fail(
                Group::Tag,
                "ret_tag",
                format!("{} returned payload {} but the stored one is {}", what, g.1, w.1),
            ),
            _ => self.fail(Group::Ret, clause, format!("{} returned {:?}, model says {:?}", what, got, want)),
        }
    }

    /// validity of an extracted / addressed extreme element; returns true if it is a stored element
    pub fn check_extreme(&mut self, e: Elem, end: End, peeked: Option<u32>, what: &str) -> bool {
        let (id, tag, p) = e;
        match self.model.get(id) {
            None => {
                self.fail(Group::Order, "extreme_not_stored", format!("{} addressed ({},{}) which is not stored", what, id, p));
                false
            }
            Some((mt, mp)) => {
                if mp != p {
                    self.fail(
                        Group::Content,
                        "extreme_prio",
                        format!("{} addressed ({},{}) but the stored priority is {}", what, id, p, mp),
                    );
                } else if self.order_on {
                    let ext = match end {
                        End::Max => self.model.max_prio(),
                        End::Min => self.model.min_prio(),
                    };
                    if ext != Some(p) {
                        self.fail(
                            Group::Order,
                            "not_extreme",
                            format!("{} addressed ({},{}) but the extreme stored priority is {:?}", what, id, p, ext),
                        );
                    }
                }
                if peeked != Some(id) {
                    self.fail(
                        Group::Order,
                        "not_peeked",
                        format!("{} addressed id {} but the immediately preceding peek reported {:?}", what, id, peeked),
                    );
                }
                if mt != tag {
                    self.fail(Group::Tag, "extreme_tag", format!("{} payload {} stored {}", what, tag, mt));
                }
                true
            }
        }
    }

    fn do_pop(&mut self, end: End) {
        if end == End::Min && !Q::DOUBLE {
            return;
        }
        let n = self.model.len();
        let peeked = self.peek_id(end);
        let got = match end {
            End::Max => self.q.pop_max(),
            End::Min => self.q.pop_min(),
        }
        .map(elem_owned);
        self.tr_elem(got.map(|(i, _, p)| (i, 0, p)));
        let what = if end == End::Max { "pop/pop_max" } else { "pop_min" };
        match got {
            None => {
                if n != 0 {
                    self.fail(Group::Order, "pop_none", format!("{} returned None with {} elements stored", what, n));
                }
            }
            Some(e) => {
                if n == 0 {
                    self.fail(Group::Content, "pop_from_empty", format!("{} returned {:?} from an empty queue", what, e));
                } else if self.check_extreme(e, end, peeked, what) {
                    self.model.remove(e.0);
                    self.removed.insert(e.0);
                }
                if self.model.has_ties() {
                    self.stats.hit("extract_with_ties");
                }
                self.stats.hit(if end == End::Max { "pop_max" } else { "pop_min" });
                self.mark_extract(n);
            }
        }
    }

    fn do_pop_if(&mut self, end: End, ans: bool, rw: Rewrite, tagw: Option<u32>) {
        if end == End::Min && !Q::DOUBLE {
            return;
        }
        let n = self.model.len();
        let r = self.resolve_rw(rw);
        let peeked = self.peek_id(end);
        let mut shown: Vec<Elem> = Vec::new();
        let f = |k: &mut Key, p: &mut Prio| {
            tick(FaultKind::Callback);
            shown.push((k.id, k.tag, p.v));
            p.v = r.apply(k.id, p.v);
            if let Some(t) = tagw {
                k.tag = t;
            }
            ans
        };
        let got = match end {
            End::Max => self.q.pop_max_if(f),
            End::Min => self.q.pop_min_if(f),
        }
        .map(elem_owned);
        self.tr_elem(got.map(|(i, _, p)| (i, 0, p)));
        let what = if end == End::Max { "pop_if/pop_max_if" } else { "pop_min_if" };
        if n == 0 {
            if !shown.is_empty() || got.is_some() {
                self.fail(
                    Group::Pred,
                    "pop_if_empty",
                    format!("{} on an empty queue called the predicate {} times and returned {:?}", what, shown.len(), got),
                );
            }
            return;
        }
        if shown.len() != 1 {
            self.fail(Group::Pred, "pop_if_calls", format!("{} called its predicate {} times", what, shown.len()));
            return;
        }
        let e = shown[0];
        if !self.check_extreme(e, end, peeked, &format!("{} predicate", what)) {
            return;
        }
        let np = r.apply(e.0, e.2);
        let nt = tagw.unwrap_or(e.1);
        if ans {
            let want = Some((e.0, nt, np));
            self.cmp_elem(got, want, "pop_if_ret", what);
            self.model.remove(e.0);
            self.removed.insert(e.0);
            self.stats.hit("pop_if_true");
            self.mark_extract(n);
        } else {
            if got.is_some() {
                self.fail(Group::Ret, "pop_if_ret", format!("{} returned {:?} although the predicate said false", what, got));
            }
            self.model.set_prio(e.0, np);
            self.model.set_tag(e.0, nt);
            self.stats.hit("pop_if_false");
            if np != e.2 {
                self.stats.hit("pop_if_false_rewrite");
                self.mark_disturb();
            }
        }
        if np != e.2 {
            self.stats.hit("pop_if_rewrite");
        }
        self.force_drain = self.force_drain || self.model.len() <= 256;
    }

    fn do_peek_mut(&mut self, end: End, tagw: u32) {
        if end == End::Min && !Q::DOUBLE {
            return;
        }
        let n = self.model.len();
        let peeked = self.peek_id(end);
        let got = match end {
            End::Max => self.q.peek_max_mut(),
            End::Min => self.q.peek_min_mut(),
        }
        .map(|(k, p)| {
            let e = (k.id, k.tag, p.v);
            k.tag = tagw;
            e
        });
        let what = if end == End::Max { "peek_mut/peek_max_mut" } else { "peek_min_mut" };
        match got {
            None => {
                if n != 0 {
                    self.fail(Group::Order, "peek_mut_none", format!("{} returned None with {} elements stored", what, n));
                }
            }
            Some(e) => {
                if n == 0 {
                    self.fail(Group::Content, "peek_mut_empty", format!("{} returned {:?} on an empty queue", what, e));
                } else if self.check_extreme(e, end, peeked, what) {
                    // the edit is meant for the element the preceding peek reported: if the call
                    // addressed another one, the payloads of both differ from the model afterwards
                    let intended = peeked.filter(|p| self.model.contains(*p)).unwrap_or(e.0);
                    self.model.set_tag(intended, tagw);
                    self.stats.hit("tag_write");
                }
            }
        }
    }

    fn do_get_mut(&mut self, t: Target, tagw: u32, by_ref: bool) {
        let id = self.resolve_target(t);
        let old = self.model.get(id);
        let got = if by_ref {
            self.q.get_mut(&id)
        } else {
            self.q.get_mut(&Key::new(id, 0xdead_0004))
        }
        .map(|(k, p)| {
            let e = (k.id, k.tag, p.v);
            k.tag = tagw;
            e
        });
        let want = old.map(|(tg, p)| (id, tg, p));
        self.cmp_elem(got, want, "get_mut_ret", &format!("get_mut({})", id));
        if got.is_some() && old.is_some() {
            self.model.set_tag(id, tagw);
            self.stats.hit("tag_write");
        }
        if old.is_none() {
            self.stats.hit("op_on_absent");
        }
    }

    fn do_get(&mut self, t: Target, by_ref: bool) {
        let id = self.resolve_target(t);
        let old = self.model.get(id);
        let key = Key::new(id, 0xdead_0005);
        let (g1, g2, a1, a2) = {
            let r1 = self.q.get(&id);
            let r2 = self.q.get(&key);
            let a1 = r1.map(|(k, _)| k as *const Key as usize);
            let a2 = r2.map(|(k, _)| k as *const Key as usize);
            (r1.map(|(k, p)| elem(k, p)), r2.map(|(k, p)| elem(k, p)), a1, a2)
        };
        let gp = if by_ref {
            self.q.get_priority(&id).map(|p| p.v)
        } else {
            self.q.get_priority(&key).map(|p| p.v)
        };
        let want = old.map(|(tg, p)| (id, tg, p));
        self.tr_elem(g1);
        self.cmp_elem(g1, want, "get_ret", &format!("get(&{}) by borrowed key", id));
        self.cmp_elem(g2, want, "get_ret", &format!("get(&Key{{{}}}) by owned key", id));
        if a1 != a2 {
            self.fail(
                Group::Ret,
                "get_borrowed_vs_owned",
                format!("get by borrowed and by owned key address different elements for id {}", id),
            );
        }
        if gp != want.map(|w| w.2) {
            self.fail(Group::Ret, "get_priority_ret", format!("get_priority({}) = {:?}, model {:?}", id, gp, want));
        }
        if old.is_none() {
            self.stats.hit("op_on_absent");
        } else {
            self.stats.hit("lookup_both_forms");
        }
    }

    fn do_clear(&mut self) {
        let n = self.model.len();
        self.q.clear();
        self.model.clear();
        self.after_special = true;
        if n >= 2 {
            self.stats.hit("clear_nonempty");
        }
        self.check_emptied("clear");
    }

    /// everything an emptied queue must report
    pub fn check_emptied(&mut self, what: &str) {
        let l = self.q.len();
        let pk = self.q.peek_max().is_some() || self.q.peek_min().is_some();
        let cnt = self.q.iter().count();
        if l != 0 || !self.q.is_empty() || pk || cnt != 0 {
            self.fail(
                Group::Content,
                "not_empty_after",
                format!("after {}: len()={} is_empty()={} peek is_some={} iter().count()={}", what, l, self.q.is_empty(), pk, cnt),
            );
        }
    }

    fn do_reserve(&mut self, how: ResKind, amt: Amount) {
        let len = self.q.len();
        let cap0 = self.q.capacity();
        self.after_special = true;
        match amt {
            Amount::Small(n) => {
                let n = n as usize;
                let res = match how {
                    ResKind::Reserve => {
                        self.q.reserve(n);
                        Ok(())
                    }
                    ResKind::ReserveExact => {
                        self.q.reserve_exact(n);
                        Ok(())
                    }
                    ResKind::TryReserve => self.q.try_reserve(n),
                    ResKind::TryReserveExact => self.q.try_reserve_exact(n),
                };
                match res {
                    Ok(()) => {
                        if self.q.capacity() < len + n {
                            self.fail(
                                Group::Cap,
                                "reserve_capacity",
                                format!("after {:?}({}) capacity()={} < len {} + {}", how, n, self.q.capacity(), len, n),
                            );
                        }
                    }
                    Err(e) => self.fail(Group::Cap, "try_reserve_small_err", format!("{:?}({}) failed: {}", how, n, e)),
                }
                if len > 0 {
                    self.stats.hit("cap_op_nonempty");
                }
                self.stats.hit("reserve_small");
            }
            Amount::Huge(i) => {
                let n = HUGE_AMOUNTS[(i as usize) % HUGE_AMOUNTS.len()];
                match how {
                    ResKind::TryReserve | ResKind::TryReserveExact => {
                        let res = if how == ResKind::TryReserve {
                            self.q.try_reserve(n)
                        } else {
                            self.q.try_reserve_exact(n)
                        };
                        if res.is_ok() {
                            self.fail(Group::Cap, "try_reserve_huge_ok", format!("{:?}({}) returned Ok", how, n));
                        }
                        if self.q.capacity() < cap0.min(len) {
                            self.fail(Group::Cap, "try_reserve_lost_capacity", format!("capacity {} -> {}", cap0, self.q.capacity()));
                        }
                        self.stats.hit("try_reserve_unsatisfiable");
                        if len > 0 {
                            self.stats.hit("cap_op_nonempty");
                        }
                    }
                    ResKind::Reserve | ResKind::ReserveExact => {
                        // the documented capacity-overflow panic: only amounts whose size computation
                        // overflows are used (a failed real allocation would abort, which is allowed)
                        let n = [usize::MAX, usize::MAX - 1, isize::MAX as usize][(i as usize) % 3];
                        let q = &mut self.q;
                        let r = std::panic::catch_unwind(std::panic::AssertUnwindSafe(|| {
                            if how == ResKind::Reserve {
                                q.reserve(n)
                            } else {
                                q.reserve_exact(n)
                            }
                        }));
                        if r.is_ok() && len > 0 {
                            self.fail(Group::Cap, "reserve_huge_returned", format!("{:?}({}) returned normally", how, n));
                        }
                        self.stats.hit("reserve_overflow_panic");
                    }
                }
            }
        }
    }

    fn do_shrink(&mut self) {
        let len = self.q.len();
        self.q.shrink_to_fit();
        self.after_special = true;
        if self.q.capacity() < len {
            self.fail(Group::Cap, "shrink_capacity", format!("after shrink_to_fit capacity()={} < len {}", self.q.capacity(), len));
        }
        if len > 0 {
            self.stats.hit("cap_op_nonempty");
        }
        self.stats.hit("shrink");
    }

    fn do_clone_replace(&mut self) {
        let c = if self.step % 2 == 0 {
            self.q.clone()
        } else {
            // Clone::clone_from into a queue that holds unrelated leftovers
            set_default_hb(self.case.hasher);
            let k = (self.step as u32 / 2) % 5;
            let mut d = Q::from_vec((0..k).map(|i| (Key::new(2_000_000 + i, 0), Prio::new(i as i64))).collect());
            d.clone_from(&self.q);
            self.stats.hit("clone_from_used");
            d
        };
        if !c.eq_q(&self.q) || !self.q.eq_q(&c) || c.ne_q(&self.q) {
            self.fail(Group::EqClone, "clone_ne_source", "a clone does not compare equal to its source".into());
        }
        let old = std::mem::replace(&mut self.q, c);
        drop(old);
        self.stats.hit("clone_replace");
    }

    fn do_snapshot(&mut self) {
        let c = self.q.clone();
        if !c.eq_q(&self.q) {
            self.fail(Group::EqClone, "clone_ne_source", "a clone does not compare equal to its source".into());
        }
        self.snapshot = Some((c, self.model.clone(), self.order_on));
        self.stats.hit("snapshot");
    }

    /// `queue.clone_from(&snapshot)`: the live queue (any length, any leftovers) is overwritten in place
    fn do_restore_from(&mut self) {
        let Some((sq, sm, so)) = self.snapshot.take() else {
            return self.do_snapshot();
        };
        let differs = sm.len() != self.model.len();
        self.q.clone_from(&sq);
        if !self.q.eq_q(&sq) || !sq.eq_q(&self.q) {
            self.fail(Group::EqClone, "clone_from_ne_source", "after clone_from the queue does not compare equal to its source".into());
        }
        self.model = sm.clone();
        self.order_on = so;
        self.snapshot = Some((sq, sm, so));
        self.stats.hit("clone_from_used");
        if differs {
            self.stats.hit("clone_from_other_length");
        }
        self.force_drain = true;
    }

    fn do_into_vec(&mut self) {
        let mut ids: Vec<u32> = self.q.clone().into_vec().iter().map(|k| k.id).collect();
        ids.sort_unstable();
        let want: Vec<u32> = self.model.m.keys().copied().collect();
        if ids != want {
            self.fail(Group::Content, "into_vec", format!("into_vec() = {:?}, model ids {:?}", ids, want));
        }
        let mut es: Vec<Elem> = self.q.clone().into_iter_owned().map(elem_owned).collect();
        es.sort_unstable();
        let w = self.model.elems();
        if es.iter().map(|e| (e.0, e.2)).ne(w.iter().map(|e| (e.0, e.2))) {
            self.fail(Group::Content, "into_iter", format!("into_iter() = {:?}, model {:?}", es, w));
        } else if es != w {
            self.fail(Group::Tag, "into_iter_tag", "into_iter() payloads differ from the model".into());
        }
    }

    fn do_eq_probe(&mut self) {
        let c = self.q.clone();
        if !c.eq_q(&self.q) || c.ne_q(&self.q) {
            self.fail(Group::EqClone, "clone_ne_source", "a clone does not compare equal to its source".into());
        }
        // near misses
        if let Some((&id, &(tag, p))) = self.model.m.iter().next() {
            let mut d = self.q.clone();
            d.change_priority(&id, Prio::new(p.wrapping_add(1)));
            if d.eq_q(&self.q) || self.q.eq_q(&d) || !d.ne_q(&self.q) {
                self.fail(Group::EqClone, "eq_ignores_priority", format!("queues differing in the priority of {} compare equal", id));
            }
            let mut d = self.q.clone();
            d.remove(&id);
            if d.eq_q(&self.q) || self.q.eq_q(&d) {
                self.fail(Group::EqClone, "eq_ignores_item", format!("queues differing in item {} compare equal", id));
            }
            let _ = tag;
        }
        let mut d = self.q.clone();
        let fresh = self.model.m.keys().next_back().map_or(0, |m| m.wrapping_add(1)).max(self.cfg.universe);
        d.push(Key::new(fresh, 0), Prio::new(0));
        if d.eq_q(&self.q) || self.q.eq_q(&d) {
            self.fail(Group::EqClone, "eq_ignores_item", "queue compares equal to itself plus one item".into());
        }
        // the same content held under another hasher state (for the run-time selectable hasher another
        // kind of hasher altogether: the two degenerate ones are partners) must compare equal
        if self.model.len() <= 300 {
            let partner = match self.case.hasher {
                HasherKind::Colliding => HasherKind::Coarse,
                HasherKind::Coarse => HasherKind::Colliding,
                HasherKind::Fixed => HasherKind::Xx,
                HasherKind::Xx => HasherKind::OneShot,
                _ => HasherKind::Fixed,
            };
            let mut o = Q::construct(CtorHow::WithHasher, partner);
            for (id, tag, p) in self.model.elems().into_iter().rev() {
                o.push(Key::new(id, tag), Prio::new(p));
            }
            if !o.eq_q(&self.q) || !self.q.eq_q(&o) || o.ne_q(&self.q) {
                self.fail(
                    Group::EqClone,
                    "same_content_other_hasher_ne",
                    format!("the same {} pairs held under hasher {:?} and under {:?} compare unequal", self.model.len(), self.case.hasher, partner),
                );
            }
            self.stats.hit("eq_other_hasher");
        }
        // Debug formatting is a safe public call too
        if self.model.len() <= 64 {
            let d = self.q.debug_string();
            if d.is_empty() {
                self.fail(Group::Content, "debug_empty", "Debug output is empty".into());
            }
            self.stats.hit("debug_fmt");
        }
        self.stats.hit("eq_probe");
    }
}
