//! Bulk construction: extend, append, From<Vec>, FromIterator, conversion, serde round trips.

use std::collections::{BTreeMap, BTreeSet};
use std::panic::{catch_unwind, AssertUnwindSafe};

use crate::case::*;
use crate::interp::*;
use crate::model::Model;
use crate::oracle::*;
use crate::queue::*;
use crate::types::*;

fn log2_fast(x: usize) -> usize {
    (usize::BITS - x.leading_zeros() - 1) as usize
}
/// the crate's current heuristic, recomputed only to label cases in the evidence
pub fn predicted_rebuild(len: usize, k: usize, hint: Hint) -> bool {
    let h = Hinted { inner: std::iter::empty::<(Key, Prio)>(), remaining: k, hint, done: false, poison: 0, fresh: k }.size_hint();
    let est = match h {
        (_, Some(max)) => max,
        (min, None) if min != 0 => min,
        _ => return false,
    };
    if len <= 1 {
        return false;
    }
    (2u128 * (len as u128 + est as u128)) < (est as u128) * (log2_fast(len) as u128)
}

fn content_of<Q: Queue>(q: &Q) -> Vec<Elem> {
    let mut v: Vec<Elem> = q.iter().map(|(k, p)| elem(k, p)).collect();
    v.sort_unstable();
    v
}

fn mk(v: &[(u32, u32, i64)]) -> Vec<(Key, Prio)> {
    v.iter().map(|&(id, tag, p)| (Key::new(id, tag), Prio::new(p))).collect()
}

impl<'c, Q: Queue> Interp<'c, Q> {
    fn placeholder(&self) -> Q {
        Q::construct(CtorHow::WithDefaultHasher, self.case.hasher)
    }

    /// the size_hint metamorphic relation: the same pairs under every legal hint
    fn hint_metamorphic(&mut self, what: &str, run: impl Fn(Hint) -> Q) {
        let mut first: Option<(Hint, Vec<Elem>)> = None;
        for &h in ALL_HINTS.iter() {
            let r = catch_unwind(AssertUnwindSafe(|| {
                let q = run(h);
                let c = content_of(&q);
                let mut o = Vec::new();
                let m = Model::from_elems(c.iter().copied());
                drain_check(&q, &m, 0x5555_5555_5555_5555, &mut o);
                (c, o)
            }));
            match r {
                Err(_) => {
                    let msg = crate::runner::last_panic_message();
                    let clause = if matches!(h, Hint::UpperHuge(_)) { "hint_panic_huge_upper" } else { "hint_panic" };
                    self.fail(Group::Hint, clause, format!("{} panicked under the legal size_hint mode {:?}: {}", what, h, msg));
                }
                Ok((c, o)) => {
                    if let Some(f) = o.into_iter().next() {
                        self.fail(Group::Hint, "hint_result_unordered", format!("{} under {:?}: {}", what, h, f.2));
                    }
                    match &first {
                        None => first = Some((h, c)),
                        Some((h0, c0)) => {
                            if *c0 != c {
                                let d: Vec<_> = c0.iter().zip(c.iter()).filter(|(a, b)| a != b).take(3).collect();
                                let only_tags = c0.iter().map(|e| (e.0, e.2)).eq(c.iter().map(|e| (e.0, e.2)));
                                self.fail(
                                    Group::Hint,
                                    if only_tags { "hint_changes_payload" } else { "hint_changes_result" },
                                    format!("{}: result under {:?} differs from result under {:?}: {:?}", what, h0, h, d),
                                );
                            }
                        }
                    }
                }
            }
        }
        self.stats.hit("hint_metamorphic");
    }

    pub fn do_extend(&mut self, pairs: &[Pair], hint: Hint) {
        let rp = self.resolve_pairs(pairs);
        let n = self.model.len();
        let k = rp.len();
        let mut ids = BTreeSet::new();
        let mut dup = false;
        let mut clash = false;
        for e in rp.iter() {
            if !ids.insert(e.0) {
                dup = true;
            }
            if self.model.contains(e.0) {
                clash = true;
            }
        }
        let fresh = ids.iter().filter(|id| !self.model.contains(**id)).count();
        if self.cfg.hint_meta {
            let base = self.q.clone();
            let rp2 = rp.clone();
            self.hint_metamorphic("extend", |h| {
                let mut c = base.clone();
                c.extend_with(hinted_fresh(&rp2, h, fresh));
                c
            });
            let mut both = [false, false];
            for &h in ALL_HINTS.iter() {
                both[predicted_rebuild(n, k, h) as usize] = true;
            }
            if both[0] && both[1] {
                self.stats.hit("extend_both_strategies_predicted");
            }
        }
        self.stats.hit(if predicted_rebuild(n, k, hint) { "extend_pred_rebuild" } else { "extend_pred_push" });
        self.q.extend_with(hinted_fresh(&rp, hint, fresh));
        let mut offered: BTreeMap<u32, Vec<u32>> = BTreeMap::new();
        for &(id, tag, p) in rp.iter() {
            offered.entry(id).or_default().push(tag);
            if self.model.contains(id) {
                self.model.set_prio(id, p);
            } else {
                self.model.set(id, tag, p);
            }
        }
        follow_tags(&self.q, &mut self.model, |id, t| offered.get(&id).map_or(false, |v| v.contains(&t)));
        if (dup || clash) && n + k >= 8 {
            self.stats.hit("bulk_dup_or_clash");
        }
        if k > 0 {
            self.mark_disturb();
        }
        self.stats.hit("bulk_construct");
        self.force_drain = true;
    }

    pub fn do_append(&mut self, pairs: &[Pair], swap_roles: bool, mirror: bool, cap: u8) {
        let mut rp = self.resolve_pairs(pairs);
        if mirror {
            // the other queue holds exactly the receiver's items, with priorities taken from the
            // generated pairs (or shifted): equal lengths, every item clashes
            let mine: Vec<Elem> = self.q.iter().map(|(k, p)| elem(k, p)).collect();
            rp = mine
                .iter()
                .enumerate()
                .map(|(i, e)| (e.0, e.1.wrapping_add(1), rp.get(i).map_or(e.2.wrapping_add(1), |x| x.2)))
                .collect();
            self.stats.hit("append_mirror");
        }
        let mut mo = Model::new();
        for &(id, tag, p) in rp.iter() {
            if !mo.contains(id) {
                mo.set(id, tag, p);
            }
        }
        set_default_hb(self.case.hasher);
        let mut other = Q::from_vec(mk(&rp));
        // capacity operations on the other queue are semantically invisible
        match cap % 4 {
            1 => other.reserve(cap as usize * 3),
            2 => other.shrink_to_fit(),
            3 => {
                other.reserve_exact(2 * other.len() + cap as usize);
            }
            _ => {}
        }
        if cap != 0 {
            self.stats.hit("append_other_capacity_op");
        }
        let mut out = Vec::new();
        check_queue(&other, &mo, 0, true, self.cfg.tables, &mut out);
        self.fails.extend(out);
        let (recv_m, oth_m) = if swap_roles { (mo.clone(), self.model.clone()) } else { (self.model.clone(), mo.clone()) };
        if swap_roles {
            other.append(&mut self.q);
            std::mem::swap(&mut self.q, &mut other);
        } else {
            self.q.append(&mut other);
        }
        // `other` is the emptied queue now
        let emptied_ok = other.len() == 0
            && other.is_empty()
            && other.peek_max().is_none()
            && other.peek_min().is_none()
            && other.iter().count() == 0
            && other.pop_max().is_none();
        if !emptied_ok {
            self.fail(
                Group::Content,
                "append_other_not_empty",
                format!("after append the other queue reports len {} / {} elements", other.len(), other.iter().count()),
            );
        } else {
            // and it is reusable
            other.push(Key::new(1, 0), Prio::new(1));
            other.push(Key::new(2, 0), Prio::new(2));
            other.push(Key::new(3, 0), Prio::new(0));
            let a = other.pop_max().map(elem_owned);
            if a != Some((2, 0, 2)) || other.len() != 2 {
                self.fail(Group::Content, "append_other_not_reusable", format!("emptied queue refilled with 3 elements pops {:?}, len {}", a, other.len()));
            }
            if self.cfg.tables {
                if let Err(e) = tables_consistent(&other.snapshot(), other.len()) {
                    self.fail(Group::Tables, "tables_other", e);
                }
            }
        }
        let other_longer = oth_m.len() > recv_m.len();
        let mut res = recv_m.clone();
        let mut clash = 0;
        for (id, tag, p) in oth_m.elems() {
            match recv_m.get(id) {
                None => res.set(id, tag, p),
                Some((rt, rpv)) => {
                    clash += 1;
                    if other_longer {
                        // either may stay: follow the implementation if it is one of the two
                        let got = self.q.get(&id).map(|(k, pr)| (k.tag, pr.v));
                        if let Some((gt, gp)) = got {
                            if (gp == p || gp == rpv) && (gt == tag || gt == rt) {
                                res.set(id, gt, gp);
                            }
                        }
                    }
                }
            }
        }
        self.model = res;
        if clash > 0 && recv_m.len() + oth_m.len() >= 8 {
            self.stats.hit("bulk_dup_or_clash");
        }
        if other_longer {
            self.stats.hit("append_other_longer");
        }
        self.stats.hit("bulk_construct");
        self.order_on = true;
        self.mark_disturb();
        self.force_drain = true;
    }

    fn rebuild_vec(&self, extra: &[(u32, u32, i64)]) -> Vec<(u32, u32, i64)> {
        let h = extra.len() / 2;
        let mut v: Vec<(u32, u32, i64)> = extra[..h].to_vec();
        v.extend(self.q.iter().map(|(k, p)| elem(k, p)));
        v.extend_from_slice(&extra[h..]);
        v
    }

    pub fn do_from_vec(&mut self, extra: &[Pair]) {
        let rp = self.resolve_pairs(extra);
        let v = self.rebuild_vec(&rp);
        let mut m = Model::new();
        let mut dup = false;
        for &(id, tag, p) in v.iter() {
            if !m.contains(id) {
                m.set(id, tag, p);
            } else {
                dup = true;
            }
        }
        set_default_hb(self.case.hasher);
        self.q = Q::from_vec(mk(&v));
        self.model = m;
        if dup && v.len() >= 8 {
            self.stats.hit("bulk_dup_or_clash");
        }
        self.stats.hit("bulk_construct");
        self.order_on = true;
        self.mark_disturb();
        self.force_drain = true;
    }

    pub fn do_from_iter(&mut self, extra: &[Pair], hint: Hint) {
        let rp = self.resolve_pairs(extra);
        let v = self.rebuild_vec(&rp);
        let mut m = Model::new();
        let mut offered: BTreeMap<u32, Vec<u32>> = BTreeMap::new();
        let mut dup = false;
        for &(id, tag, p) in v.iter() {
            if m.contains(id) {
                dup = true;
            }
            offered.entry(id).or_default().push(tag);
            m.set(id, tag, p);
        }
        set_default_hb(self.case.hasher);
        if self.cfg.hint_meta {
            let v2 = v.clone();
            self.hint_metamorphic("from_iter", |h| Q::from_iterator(hinted(&v2, h)));
        }
        self.q = Q::from_iterator(hinted(&v, hint));
        self.model = m;
        follow_tags(&self.q, &mut self.model, |id, t| offered.get(&id).map_or(false, |v| v.contains(&t)));
        if dup && v.len() >= 8 {
            self.stats.hit("bulk_dup_or_clash");
        }
        self.stats.hit("bulk_construct");
        self.order_on = true;
        self.mark_disturb();
        self.force_drain = true;
    }

    pub fn do_convert(&mut self) {
        let ph = self.placeholder();
        let q = std::mem::replace(&mut self.q, ph);
        let o = q.into_other();
        let mut out = Vec::new();
        check_queue(&o, &self.model, self.cfg.universe, true, self.cfg.tables, &mut out);
        if out.is_empty() && !self.model.is_empty() {
            drain_check(&o, &self.model, self.case.drain_bits, &mut out);
        }
        self.fails.extend(out);
        self.q = o.into_other();
        self.stats.hit("bulk_construct");
        self.stats.hit("convert_round");
        self.order_on = true;
        self.mark_disturb();
        self.force_drain = true;
    }

    #[cfg(not(feature = "std"))]
    pub fn do_serde(&mut self, _carrier: Carrier, _cross: bool) {}

    #[cfg(feature = "std")]
    pub fn do_serde(&mut self, carrier: Carrier, cross: bool) {
        set_default_hb(self.case.hasher);
        fn de<T: Queue>(q: &impl Queue, carrier: Carrier) -> Result<T, String> {
            match carrier {
                Carrier::JsonText => T::from_json(&q.to_json()?),
                Carrier::JsonValue => T::from_value(q.to_value()?),
                Carrier::SeqDe => T::from_pairs(q.iter().map(|(k, p)| ((k.id, k.tag), p.v)).collect()),
                Carrier::SeqHint(d) => {
                    let v: Vec<((u32, u32), i64)> = q.iter().map(|(k, p)| ((k.id, k.tag), p.v)).collect();
                    let h = (v.len() as i64 + d as i64).max(0) as usize;
                    T::from_pairs_hinted(v, Some(h))
                }
                Carrier::InPlace => {
                    let mut dst = T::from_vec((0..3u32).map(|i| (Key::new(4_000_000 + i, 0), Prio::new(3 - i as i64))).collect());
                    T::from_json_in_place(&mut dst, &q.to_json()?)?;
                    Ok(dst)
                }
            }
        }
        let n = self.model.len();
        let newq: Result<Q, String> = if cross {
            match de::<Q::Other>(&self.q, carrier) {
                Ok(o) => {
                    let mut out = Vec::new();
                    check_queue(&o, &self.model, self.cfg.universe, true, self.cfg.tables, &mut out);
                    if out.is_empty() && n > 0 {
                        drain_check(&o, &self.model, self.case.drain_bits, &mut out);
                    }
                    self.fails.extend(out);
                    Ok(o.into_other())
                }
                Err(e) => Err(e),
            }
        } else {
            de::<Q>(&self.q, carrier)
        };
        match newq {
            Err(e) => self.fail(Group::Serde, "roundtrip_err", format!("round trip through {:?} failed: {}", carrier, e)),
            Ok(nq) => {
                if !nq.eq_q(&self.q) || !self.q.eq_q(&nq) {
                    self.fail(Group::Serde, "roundtrip_ne", format!("round trip through {:?} (cross={}) is not equal to the original", carrier, cross));
                }
                self.q = nq;
                self.order_on = true;
            }
        }
        if n >= 3 && self.model.has_ties() {
            self.stats.hit("serde_roundtrip_ties");
        }
        self.stats.hit("serde_roundtrip");
        self.force_drain = true;
    }

    #[cfg(not(feature = "std"))]
    pub fn do_deser_seq(&mut self, _pairs: &[(u32, u32, i64)], _carrier: Carrier, _cross: bool) {}

    /// C15 (b): any well-typed pair sequence either is rejected or yields a consistent queue
    #[cfg(feature = "std")]
    pub fn do_deser_seq(&mut self, pairs: &[(u32, u32, i64)], carrier: Carrier, cross: bool) {
        set_default_hb(self.case.hasher);
        let raw: Vec<((u32, u32), i64)> = pairs.iter().map(|&(id, t, p)| ((id, t), p)).collect();
        fn de<T: Queue>(raw: &[((u32, u32), i64)], carrier: Carrier) -> Result<T, String> {
            match carrier {
                Carrier::JsonText => T::from_json(&serde_json::to_string(raw).unwrap()),
                Carrier::JsonValue => T::from_value(serde_json::to_value(raw).unwrap()),
                Carrier::SeqDe => T::from_pairs(raw.to_vec()),
                Carrier::SeqHint(d) => T::from_pairs_hinted(raw.to_vec(), Some((raw.len() as i64 + d as i64).max(0) as usize)),
                Carrier::InPlace => {
                    let mut dst = T::from_vec((0..3u32).map(|i| (Key::new(4_000_000 + i, 0), Prio::new(3 - i as i64))).collect());
                    T::from_json_in_place(&mut dst, &serde_json::to_string(raw).unwrap())?;
                    Ok(dst)
                }
            }
        }
        let mut offered: BTreeMap<u32, Vec<(u32, i64)>> = BTreeMap::new();
        let mut repeats = false;
        for &(id, t, p) in pairs {
            let e = offered.entry(id).or_default();
            if !e.is_empty() {
                repeats = true;
            }
            e.push((t, p));
        }
        if repeats {
            self.stats.hit("deser_seq_with_repeats");
        }
        self.stats.hit("deser_seq");
        // the model of the result follows the implementation where the property leaves a choice
        let judge = |content: Vec<Elem>, len: usize, fails: &mut Vec<RawFail>| -> Model {
            let mut m = Model::new();
            if len != content.len() {
                fails.push((Group::Serde, "deser_len_vs_contents", format!("deserialized queue reports len {} but iterates {} elements (input {:?})", len, content.len(), pairs)));
            }
            for (id, t, p) in content.iter().copied() {
                if m.contains(id) {
                    fails.push((Group::Serde, "deser_duplicate_item", format!("item {} occurs twice in the deserialized queue", id)));
                }
                match offered.get(&id) {
                    None => fails.push((Group::Serde, "deser_invented_item", format!("item {} was not in the input", id))),
                    Some(v) => {
                        if !v.iter().any(|x| x.1 == p) {
                            fails.push((Group::Serde, "deser_wrong_priority", format!("item {} has priority {} which was never given for it ({:?})", id, p, v)));
                        }
                        if !v.iter().any(|x| x.0 == t) {
                            fails.push((Group::Tag, "deser_wrong_payload", format!("item {} has a payload never given for it", id)));
                        }
                    }
                }
                m.set(id, t, p);
            }
            if m.len() != offered.len() {
                fails.push((Group::Serde, "deser_lost_item", format!("{} distinct items given, {} stored", offered.len(), m.len())));
            }
            m
        };
        let mut fails = Vec::new();
        let res: Result<(Q, Model), String> = if cross {
            de::<Q::Other>(&raw, carrier).map(|o| {
                let m = judge(content_of(&o), o.len(), &mut fails);
                if fails.is_empty() {
                    check_queue(&o, &m, 0, true, self.cfg.tables, &mut fails);
                    if fails.is_empty() && !m.is_empty() {
                        drain_check(&o, &m, self.case.drain_bits, &mut fails);
                    }
                }
                (o.into_other(), m)
            })
        } else {
            de::<Q>(&raw, carrier).map(|q| {
                let m = judge(content_of(&q), q.len(), &mut fails);
                (q, m)
            })
        };
        self.fails.extend(fails);
        match res {
            Err(e) => {
                if repeats {
                    self.stats.hit("deser_seq_rejected");
                } else {
                    self.fail(Group::Serde, "deser_err_no_repeat", format!("a sequence of distinct items was rejected: {}", e));
                }
            }
            Ok((q, m)) => {
                self.q = q;
                self.model = m;
                self.order_on = true;
                self.force_drain = true;
            }
        }
    }
}
