//! proptest strategies for cases. Every random choice of a run is made here.

use proptest::collection::vec;
use proptest::prelude::*;
use proptest::strategy::Union;

use crate::case::*;
use crate::types::HasherKind;

/// Per-property generation profile.
#[derive(Clone, Debug)]
pub struct Profile {
    pub kinds: &'static [Kind],
    pub max_ops: usize,
    /// weights of the initial size classes [0, 1, 2, 3, 4..15, 16..64, 65..200, 201..max_big]
    pub size_w: [u32; 8],
    pub max_big: usize,
    /// (op name, weight)
    pub ops: Vec<(&'static str, u32)>,
    /// weights of the universes [4, 12, 64, 1024]
    pub universe_w: [u32; 4],
    /// weights of the priority domains [0..2, 0..8, 0..64, full i64]
    pub dom_w: [u32; 4],
    pub hashers: &'static [HasherKind],
    /// iterator program length bound
    pub prog_len: usize,
    /// allow mem::forget of iter_mut / drain
    pub leaks: bool,
    /// allow reserve with overflowing amounts (documented panic; C04 only)
    pub reserve_overflow: bool,
    /// allow unsatisfiable try_reserve
    pub try_huge: bool,
    /// include the huge upper-bound size hints
    pub huge_hints: bool,
    /// only targets / priorities that do not depend on the internal arrangement or iteration order
    pub abstract_only: bool,
    /// percentage of cases drawn from the large-queue variant of this profile (50..260 elements,
    /// longer histories dominated by single-element operations)
    pub big_w: u32,
    /// this instance is the large-queue variant
    pub big: bool,
    /// percentage of iter_mut operations that write through the yielded references only after the
    /// iterator has been dropped (known finding F7)
    pub late_writes: u32,
    /// per mille of operations that are carried out by a cleanup handler during an unrelated unwinding
    pub unwind_w: u32,
}

const BOTH: &[Kind] = &[Kind::PQ, Kind::DPQ];
const PQ_ONLY: &[Kind] = &[Kind::PQ];
const DPQ_ONLY: &[Kind] = &[Kind::DPQ];
const MAIN_HASHERS: &[HasherKind] = &[HasherKind::Random, HasherKind::Fixed, HasherKind::Xx, HasherKind::Keyed];
const ALL_HASHERS: &[HasherKind] = &[
    HasherKind::Random,
    HasherKind::Fixed,
    HasherKind::Xx,
    HasherKind::Keyed,
    HasherKind::Colliding,
    HasherKind::Coarse,
    HasherKind::OneShot,
];

fn base_ops() -> Vec<(&'static str, u32)> {
    vec![
        ("push", 14),
        ("push_increase", 4),
        ("push_decrease", 4),
        ("change_priority", 10),
        ("change_priority_by", 6),
        ("remove", 10),
        ("pop", 8),
        ("pop_if", 5),
        ("peek_mut", 2),
        ("get_mut", 2),
        ("get", 2),
        ("retain", 2),
        ("retain_mut", 2),
        ("iter_mut", 3),
        ("iter", 1),
        ("ref_into_iter", 0),
        ("into_iter", 0),
        ("drain", 1),
        ("sorted_iter", 0),
        ("adaptor", 0),
        ("extend", 3),
        ("append", 2),
        ("from_vec", 1),
        ("from_iter", 1),
        ("convert", 2),
        ("serde", 0),
        ("clone", 1),
        ("clear", 1),
        ("reserve", 1),
        ("shrink_to_fit", 1),
        ("sorted", 0),
        ("eq", 0),
        ("into_vec", 1),
        ("deser_seq", 0),
        ("adaptor_iter_mut", 0),
        ("adaptor_sorted", 0),
        ("iter_mut_each", 2),
    ]
}

fn with(mut ops: Vec<(&'static str, u32)>, over: &[(&'static str, u32)]) -> Vec<(&'static str, u32)> {
    for (n, w) in over {
        let e = ops.iter_mut().find(|e| e.0 == *n).unwrap_or_else(|| panic!("unknown op {}", n));
        e.1 = *w;
    }
    ops
}

pub fn profile(prop: u8, thorough: bool) -> Profile {
    let mut p = Profile {
        kinds: BOTH,
        max_ops: if thorough { 200 } else { 60 },
        size_w: [1, 1, 1, 1, 4, 3, 1, 0],
        max_big: 2000,
        ops: base_ops(),
        universe_w: [3, 4, 3, 1],
        dom_w: [3, 3, 2, 2],
        hashers: MAIN_HASHERS,
        prog_len: 24,
        leaks: false,
        reserve_overflow: false,
        try_huge: true,
        huge_hints: true,
        abstract_only: false,
        big_w: 0,
        big: false,
        late_writes: 0,
        unwind_w: 15,
    };
    if thorough {
        p.size_w = [1, 1, 1, 1, 4, 4, 2, 1];
    }
    match prop {
        1 => {
            p.kinds = PQ_ONLY;
            p.big_w = 15;
            p.late_writes = 4;
            p.hashers = ALL_HASHERS;
        }
        2 => {
            p.kinds = DPQ_ONLY;
            p.big_w = 15;
            p.late_writes = 4;
            p.hashers = ALL_HASHERS;
        }
        3 => {
            p.big_w = 8;
            p.hashers = ALL_HASHERS;
            p.universe_w = [5, 5, 3, 0];
            p.ops = with(p.ops, &[("get", 4), ("get_mut", 3), ("into_vec", 2), ("remove", 14), ("push", 16), ("serde", 2), ("deser_seq", 3)]);
        }
        4 => {
            p.big_w = 8;
            p.leaks = true;
            p.reserve_overflow = true;
            p.hashers = ALL_HASHERS;
            p.ops = base_ops().into_iter().map(|(n, w)| (n, w.max(2).min(6))).collect();
            p.ops = with(p.ops, &[("adaptor", 1), ("sorted", 2), ("serde", 2), ("deser_seq", 2), ("eq", 1), ("push", 8), ("remove", 6)]);
        }
        6 => {
            p.big_w = 8;
            p.ops = with(p.ops, &[("sorted", 14), ("sorted_iter", 4), ("adaptor_sorted", 8), ("retain", 1), ("drain", 0), ("clear", 0)]);
            p.size_w = [1, 1, 1, 2, 6, 2, 0, 0];
            p.dom_w = [4, 4, 2, 1];
            p.max_ops = if thorough { 60 } else { 30 };
        }
        7 => {
            p.big_w = 8;
            p.ops = with(
                p.ops,
                &[("extend", 16), ("append", 10), ("from_vec", 6), ("from_iter", 8), ("convert", 6), ("retain", 1), ("clear", 0), ("drain", 0)],
            );
            p.size_w = [2, 2, 2, 1, 4, 6, 2, 0];
            p.max_ops = if thorough { 40 } else { 16 };
        }
        8 => {
            p.big_w = 15;
            p.late_writes = 10;
            p.ops = with(p.ops, &[("retain", 10), ("retain_mut", 12), ("iter_mut", 12), ("pop_if", 14), ("adaptor_iter_mut", 6), ("iter_mut_each", 10), ("clear", 0), ("drain", 0)]);
            p.max_ops = if thorough { 80 } else { 30 };
        }
        9 => {
            p.big_w = 5;
            p.ops = with(p.ops, &[("iter_mut", 30), ("adaptor_iter_mut", 14), ("iter_mut_each", 10), ("clear", 0), ("drain", 0)]);
            p.size_w = [1, 1, 2, 2, 6, 3, 0, 0];
            p.max_ops = 14;
            p.prog_len = 44;
            p.leaks = false;
        }
        11 => {
            p.big_w = 8;
            p.ops = with(p.ops, &[("push_increase", 22), ("push_decrease", 22), ("clear", 0), ("drain", 0)]);
            p.universe_w = [4, 5, 2, 0];
            p.max_ops = if thorough { 80 } else { 40 };
        }
        12 => {
            p.big_w = 8;
            p.hashers = ALL_HASHERS;
            p.ops = with(
                p.ops,
                &[("get_mut", 8), ("peek_mut", 8), ("get", 6), ("push", 16), ("push_increase", 6), ("push_decrease", 6), ("change_priority", 10), ("iter_mut", 5), ("clear", 0)],
            );
            p.universe_w = [4, 5, 2, 0];
        }
        13 => {
            p.big_w = 10;
            p.ops = with(
                p.ops,
                &[("iter", 8), ("ref_into_iter", 4), ("into_iter", 8), ("drain", 6), ("sorted_iter", 8), ("adaptor", 30), ("clear", 0)],
            );
            p.size_w = [1, 1, 2, 2, 6, 3, 0, 0];
            p.max_ops = 16;
            p.prog_len = 44;
        }
        14 => {
            p.ops = with(p.ops, &[("eq", 10), ("clone", 8)]);
            // == across hasher states, the degenerate and the specialised ones included
            p.hashers = ALL_HASHERS;
        }
        15 => {
            p.ops = with(p.ops, &[("serde", 20), ("deser_seq", 14)]);
            p.max_ops = if thorough { 60 } else { 24 };
            p.dom_w = [4, 3, 2, 2];
        }
        16 => {
            p.big_w = 8;
            p.ops = with(p.ops, &[("drain", 10), ("clear", 8), ("pop", 10)]);
            p.leaks = true;
            p.max_ops = if thorough { 80 } else { 36 };
        }
        17 => {
            p.big_w = 8;
            p.ops = with(p.ops, &[("reserve", 14), ("shrink_to_fit", 7), ("clear", 1), ("append", 5)]);
            p.max_ops = if thorough { 80 } else { 40 };
        }
        18 => {
            p.hashers = &[HasherKind::Fixed];
            p.abstract_only = true;
            p.size_w = [1, 1, 1, 1, 4, 3, 1, 0];
            p.max_big = 150;
            p.ops = with(p.ops, &[("serde", 1), ("deser_seq", 3), ("get", 3), ("append", 4), ("eq", 3)]);
            p.big_w = 6;
        }
        _ => {}
    }
    p
}

fn pick<T: Clone + std::fmt::Debug + 'static>(items: &[T], w: &[u32]) -> BoxedStrategy<T> {
    let v: Vec<(u32, BoxedStrategy<T>)> = items
        .iter()
        .zip(w.iter())
        .filter(|(_, w)| **w > 0)
        .map(|(i, w)| (*w, Just(i.clone()).boxed()))
        .collect();
    Union::new_weighted(v).boxed()
}

pub fn prio_val(dom: u8) -> BoxedStrategy<i64> {
    match dom {
        0 => (0i64..2).boxed(),
        1 => (0i64..8).boxed(),
        2 => (0i64..64).boxed(),
        _ => prop_oneof![
            4 => any::<i64>(),
            1 => Just(i64::MAX),
            1 => Just(i64::MIN),
            1 => Just(i64::MAX - 1),
            1 => Just(i64::MIN + 1),
            2 => -3i64..4,
        ]
        .boxed(),
    }
}

pub fn prio_spec(dom: u8) -> BoxedStrategy<PrioSpec> {
    if ABSTRACT.with(|a| a.get()) {
        return prop_oneof![
            12 => prio_val(dom).prop_map(PrioSpec::Val),
            2 => (0u8..3).prop_map(PrioSpec::AboveMax),
            2 => (0u8..3).prop_map(PrioSpec::BelowMin),
            1 => Just(PrioSpec::EqMax),
            1 => Just(PrioSpec::EqMin),
            1 => Just(PrioSpec::Unchanged),
            1 => (-2i8..3).prop_map(PrioSpec::Delta),
        ]
        .boxed();
    }
    prop_oneof![
        12 => prio_val(dom).prop_map(PrioSpec::Val),
        2 => (0u8..3).prop_map(PrioSpec::AboveMax),
        2 => (0u8..3).prop_map(PrioSpec::BelowMin),
        1 => Just(PrioSpec::EqMax),
        1 => Just(PrioSpec::EqMin),
        1 => any::<u16>().prop_map(PrioSpec::SameAsSlot),
        1 => Just(PrioSpec::Unchanged),
        1 => (-2i8..3).prop_map(PrioSpec::Delta),
        1 => Just(PrioSpec::EqParent),
        1 => Just(PrioSpec::BetweenParentGrand),
    ]
    .boxed()
}

pub fn target(u: u32) -> BoxedStrategy<Target> {
    if ABSTRACT.with(|a| a.get()) {
        return prop_oneof![10 => (0..u).prop_map(Target::Id), 1 => Just(Target::Max), 1 => Just(Target::Min)].boxed();
    }
    prop_oneof![
        10 => (0..u).prop_map(Target::Id),
        // the two ends of the heap vector and of the slot order are where removal and insertion fix-ups
        // happen: they get a share of their own (the last slot is the most recently inserted element)
        3 => prop_oneof![6 => any::<u16>(), 1 => Just(0u16), 2 => Just(65535u16), 1 => Just(32767u16)].prop_map(Target::Pos),
        3 => prop_oneof![5 => any::<u16>(), 1 => Just(0u16), 3 => Just(65535u16)].prop_map(Target::Slot),
        1 => Just(Target::Max),
        1 => Just(Target::Min),
    ]
    .boxed()
}

pub fn rewrite(dom: u8) -> BoxedStrategy<Rewrite> {
    prop_oneof![
        2 => Just(Rewrite::Keep),
        3 => prio_val(dom).prop_map(Rewrite::Set),
        2 => (-3i64..4).prop_map(Rewrite::Add),
        2 => Just(Rewrite::Neg),
        3 => Just(Rewrite::AboveMax),
        3 => Just(Rewrite::BelowMin),
        1 => Just(Rewrite::ToMax),
        1 => Just(Rewrite::ToMin),
        2 => (any::<u8>(), 1u8..40).prop_map(|(a, m)| Rewrite::Scatter(a, m)),
    ]
    .boxed()
}

pub fn mask() -> BoxedStrategy<u64> {
    prop_oneof![
        6 => any::<u64>(),
        1 => Just(u64::MAX),
        1 => Just(0u64),
        2 => (any::<u64>(), any::<u64>()).prop_map(|(a, b)| a | b),
        2 => (any::<u64>(), any::<u64>()).prop_map(|(a, b)| a & b),
    ]
    .boxed()
}

pub fn end(kind: Kind) -> BoxedStrategy<End> {
    match kind {
        Kind::PQ => Just(End::Max).boxed(),
        Kind::DPQ => prop_oneof![Just(End::Max), Just(End::Min)].boxed(),
    }
}

pub fn it_call(kind: Kind, back: bool) -> BoxedStrategy<ItCall> {
    if back && kind == Kind::DPQ || back {
        prop_oneof![6 => Just(ItCall::Next), 3 => Just(ItCall::Back), 2 => Just(ItCall::Probe)].boxed()
    } else {
        prop_oneof![8 => Just(ItCall::Next), 2 => Just(ItCall::Probe)].boxed()
    }
}

pub fn program(kind: Kind, back: bool, max: usize) -> BoxedStrategy<Vec<ItCall>> {
    prop_oneof![
        6 => vec(it_call(kind, back), 0..max),
        // stop after a short prefix from one end (early drop)
        2 => (1usize..5).prop_map(|k| vec![ItCall::Next; k]),
        1 => (1usize..5).prop_map(|k| vec![ItCall::Back; k]),
        // run to exhaustion from the front / the back / alternating, and beyond
        1 => (0usize..3).prop_map(move |m| {
            let mut v = Vec::new();
            for i in 0..(max + 4) {
                v.push(match m {
                    0 => ItCall::Next,
                    1 => ItCall::Back,
                    _ => if i % 2 == 0 { ItCall::Next } else { ItCall::Back },
                });
            }
            v
        }),
    ]
    .boxed()
}

pub fn hint(huge: bool) -> BoxedStrategy<Hint> {
    if huge {
        prop_oneof![
            4 => Just(Hint::Exact),
            3 => Just(Hint::Unknown),
            2 => Just(Hint::LowerOnly),
            3 => Just(Hint::UpperOnly),
            2 => (0u8..4, 0u8..6).prop_map(|(a, b)| Hint::Loose(a, b)),
            3 => (1u8..7).prop_map(Hint::LowerShort),
            1 => Just(Hint::Half),
            2 => Just(Hint::FreshLower),
            1 => Just(Hint::FreshBounds),
            2 => (10u8..17).prop_map(Hint::UpperPow),
            2 => (0u8..4).prop_map(Hint::UpperHuge),
        ]
        .boxed()
    } else {
        prop_oneof![
            4 => Just(Hint::Exact),
            3 => Just(Hint::Unknown),
            2 => Just(Hint::LowerOnly),
            3 => Just(Hint::UpperOnly),
            2 => (0u8..4, 0u8..6).prop_map(|(a, b)| Hint::Loose(a, b)),
            3 => (1u8..7).prop_map(Hint::LowerShort),
            1 => Just(Hint::Half),
            2 => Just(Hint::FreshLower),
            1 => Just(Hint::FreshBounds),
            1 => (10u8..13).prop_map(Hint::UpperPow),
        ]
        .boxed()
    }
}

pub fn pairs(u: u32, dom: u8, max: usize) -> BoxedStrategy<Vec<Pair>> {
    // half of the time ids come from a universe smaller than the sequence (forced duplication)
    let base = prop_oneof![
        vec((0..u, any::<u32>(), prio_spec(dom)), 0..max),
        vec((0..u.min(6).max(1), any::<u32>(), prio_spec(dom)), 0..max),
        vec((0..u.saturating_mul(3).max(1), any::<u32>(), prio_spec(dom)), 0..max),
    ];
    // batches often arrive sorted (a merge, a dump of another queue): a fifth of them is put in non-increasing
    // or non-decreasing order of their literal priorities, repeats of an item included
    (base, 0u8..10)
        .prop_map(|(mut v, mode)| {
            let key = |p: &Pair| match p.2 {
                PrioSpec::Val(x) => x,
                PrioSpec::AboveMax(_) | PrioSpec::EqMax => i64::MAX,
                PrioSpec::BelowMin(_) | PrioSpec::EqMin => i64::MIN,
                _ => 0,
            };
            match mode {
                0 => v.sort_by(|a, b| key(b).cmp(&key(a))),
                1 => v.sort_by(|a, b| key(a).cmp(&key(b))),
                _ => {}
            }
            v
        })
        .boxed()
}

fn pair_len_bound(p: &Profile) -> usize {
    if p.big {
        1100
    } else if p.max_ops > 100 {
        200
    } else {
        70
    }
}

pub fn op_strategy(p: &Profile, kind: Kind, u: u32, dom: u8) -> BoxedStrategy<Op> {
    let mut v: Vec<(u32, BoxedStrategy<Op>)> = Vec::new();
    let endhow = if p.leaks {
        prop_oneof![4 => Just(EndHow::Drop), 1 => Just(EndHow::Forget)].boxed()
    } else {
        Just(EndHow::Drop).boxed()
    };
    let plen = p.prog_len;
    let pl = pair_len_bound(p);
    for (name, w) in p.ops.iter() {
        if *w == 0 {
            continue;
        }
        let s: BoxedStrategy<Op> = match *name {
            "push" => (target(u), any::<u32>(), prio_spec(dom)).prop_map(|(t, tag, p)| Op::Push { t, tag, p }).boxed(),
            "push_increase" => (target(u), any::<u32>(), prio_spec(dom)).prop_map(|(t, tag, p)| Op::PushInc { t, tag, p }).boxed(),
            "push_decrease" => (target(u), any::<u32>(), prio_spec(dom)).prop_map(|(t, tag, p)| Op::PushDec { t, tag, p }).boxed(),
            "change_priority" => (target(u), prio_spec(dom), any::<bool>()).prop_map(|(t, p, by_ref)| Op::Change { t, p, by_ref }).boxed(),
            "change_priority_by" => (target(u), rewrite(dom), any::<bool>()).prop_map(|(t, rw, by_ref)| Op::ChangeBy { t, rw, by_ref }).boxed(),
            "remove" => (target(u), any::<bool>()).prop_map(|(t, by_ref)| Op::Remove { t, by_ref }).boxed(),
            "pop" => end(kind).prop_map(|end| Op::Pop { end }).boxed(),
            "pop_if" => (end(kind), any::<bool>(), rewrite(dom), proptest::option::of(any::<u32>()))
                .prop_map(|(end, ans, rw, tagw)| Op::PopIf { end, ans, rw, tagw })
                .boxed(),
            "peek_mut" => (end(kind), any::<u32>()).prop_map(|(end, tagw)| Op::PeekMut { end, tagw }).boxed(),
            "get_mut" => (target(u), any::<u32>(), any::<bool>()).prop_map(|(t, tagw, by_ref)| Op::GetMut { t, tagw, by_ref }).boxed(),
            "get" => (target(u), any::<bool>()).prop_map(|(t, by_ref)| Op::Get { t, by_ref }).boxed(),
            "retain" => mask().prop_map(|mask| Op::Retain { mask }).boxed(),
            "retain_mut" => (mask(), rewrite(dom), mask(), proptest::option::of(any::<u32>()))
                .prop_map(|(mask, rw, rwmask, tagw)| Op::RetainMut { mask, rw, rwmask, tagw })
                .boxed(),
            "iter_mut_each" => (any::<u8>(), any::<u8>(), rewrite(dom), mask()).prop_map(|(how, k, rw, rwmask)| Op::IterMutEach { how, k, rw, rwmask }).boxed(),
            "iter_mut" => {
                let late_w = p.late_writes;
                (program(kind, true, plen), rewrite(dom), mask(), proptest::option::of(any::<u32>()), endhow.clone(), any::<bool>(), 0u32..100)
                    .prop_map(move |(prog, rw, rwmask, tagw, end, via_into, l)| Op::IterMut { prog, rw, rwmask, tagw, end, via_into, late: l < late_w })
                    .boxed()
            }
            "iter" => program(kind, true, plen).prop_map(|prog| Op::IterProg { which: ItKind::Iter, prog, end: EndHow::Drop }).boxed(),
            "ref_into_iter" => program(kind, true, plen).prop_map(|prog| Op::IterProg { which: ItKind::RefIntoIter, prog, end: EndHow::Drop }).boxed(),
            "into_iter" => program(kind, true, plen).prop_map(|prog| Op::IterProg { which: ItKind::IntoIter, prog, end: EndHow::Drop }).boxed(),
            "drain" => (program(kind, true, plen), endhow.clone()).prop_map(|(prog, end)| Op::IterProg { which: ItKind::Drain, prog, end }).boxed(),
            "sorted_iter" => program(kind, true, plen).prop_map(|prog| Op::IterProg { which: ItKind::Sorted, prog, end: EndHow::Drop }).boxed(),
            "adaptor" => (
                prop_oneof![2 => Just(ItKind::Iter), 1 => Just(ItKind::RefIntoIter), 2 => Just(ItKind::IntoIter), 2 => Just(ItKind::Drain), 3 => Just(ItKind::Sorted), 3 => Just(ItKind::IterMut)],
                proptest::sample::select(ALL_COMPS.to_vec()),
                any::<u8>(),
                any::<u8>(),
            )
                .prop_map(|(which, comp, a, b)| Op::Adapt { which, comp, a, b })
                .boxed(),
            "adaptor_sorted" => (proptest::sample::select(ALL_COMPS.to_vec()), any::<u8>(), any::<u8>())
                .prop_map(|(comp, a, b)| Op::Adapt { which: ItKind::Sorted, comp, a, b })
                .boxed(),
            "adaptor_iter_mut" => (proptest::sample::select(ALL_COMPS.to_vec()), any::<u8>(), any::<u8>())
                .prop_map(|(comp, a, b)| Op::Adapt { which: ItKind::IterMut, comp, a, b })
                .boxed(),
            "extend" => (pairs(u, dom, pl), hint(p.huge_hints)).prop_map(|(pairs, hint)| Op::Extend { pairs, hint }).boxed(),
            "append" => (pairs(u, dom, pl), any::<bool>(), prop_oneof![3 => Just(false), 1 => Just(true)], prop_oneof![3 => Just(0u8), 1 => any::<u8>()])
                .prop_map(|(pairs, swap_roles, mirror, cap)| Op::Append { pairs, swap_roles, mirror, cap })
                .boxed(),
            "from_vec" => pairs(u, dom, 24).prop_map(|extra| Op::RebuildFromVec { extra }).boxed(),
            "from_iter" => (pairs(u, dom, 24), hint(p.huge_hints)).prop_map(|(extra, hint)| Op::RebuildFromIter { extra, hint }).boxed(),
            "convert" => Just(Op::ConvertRound).boxed(),
            "serde" => (prop_oneof![2 => Just(Carrier::JsonText), 2 => Just(Carrier::JsonValue), 2 => Just(Carrier::SeqDe), 2 => Just(Carrier::InPlace), 3 => (-5i8..9).prop_map(Carrier::SeqHint)], any::<bool>())
                .prop_map(|(carrier, cross)| Op::Serde { carrier, cross })
                .boxed(),
            "clone" => prop_oneof![2 => Just(Op::CloneReplace), 2 => Just(Op::Snapshot), 3 => Just(Op::RestoreFrom)].boxed(),
            "clear" => Just(Op::Clear).boxed(),
            "reserve" => {
                let kinds = prop_oneof![Just(ResKind::Reserve), Just(ResKind::ReserveExact), Just(ResKind::TryReserve), Just(ResKind::TryReserveExact)];
                let try_kinds = prop_oneof![Just(ResKind::TryReserve), Just(ResKind::TryReserveExact)];
                let small = prop_oneof![6 => Just(0u32), 12 => 1u32..65, 4 => 128u32..4097, 1 => 8193u32..20000].prop_map(Amount::Small);
                let mut alts: Vec<(u32, BoxedStrategy<Op>)> = vec![(8, (kinds.clone(), small).prop_map(|(how, amt)| Op::Reserve { how, amt }).boxed())];
                if p.try_huge {
                    alts.push((3, (try_kinds, (0u8..6).prop_map(Amount::Huge)).prop_map(|(how, amt)| Op::Reserve { how, amt }).boxed()));
                }
                if p.reserve_overflow {
                    alts.push((
                        1,
                        (prop_oneof![Just(ResKind::Reserve), Just(ResKind::ReserveExact)], (0u8..3).prop_map(Amount::Huge))
                            .prop_map(|(how, amt)| Op::Reserve { how, amt })
                            .boxed(),
                    ));
                }
                Union::new_weighted(alts).boxed()
            }
            "shrink_to_fit" => Just(Op::Shrink).boxed(),
            "sorted" => (
                prop_oneof![3 => Just(SortedHow::Iter), 2 => Just(SortedHow::IterRev), 2 => Just(SortedHow::DescVec), 2 => Just(SortedHow::AscVec)],
                program(kind, true, plen),
            )
                .prop_map(|(how, prog)| Op::Sorted { how, prog })
                .boxed(),
            "eq" => Just(Op::EqProbe).boxed(),
            "into_vec" => Just(Op::IntoVecRebuild).boxed(),
            "deser_seq" => (
                prop_oneof![
                    vec((0..u.min(6).max(1), any::<u32>(), prio_val(dom)), 0..40),
                    vec((0..u.max(1), any::<u32>(), prio_val(dom)), 0..40),
                ],
                prop_oneof![2 => Just(Carrier::JsonText), 2 => Just(Carrier::JsonValue), 2 => Just(Carrier::SeqDe), 2 => Just(Carrier::InPlace), 3 => (-5i8..9).prop_map(Carrier::SeqHint)],
                any::<bool>(),
            )
                .prop_map(|(pairs, carrier, cross)| Op::DeserSeq { pairs, carrier, cross })
                .boxed(),
            other => panic!("unknown op name {}", other),
        };
        v.push((*w, s));
    }
    let base = Union::new_weighted(v).boxed();
    if p.unwind_w == 0 {
        return base;
    }
    // the same operation, carried out by a cleanup handler while an unrelated panic unwinds; operations that
    // may panic by contract (reserve with an overflowing amount) stay outside
    let wrapped = base.clone().prop_map(|op| match op {
        Op::Reserve { amt: Amount::Huge(_), .. } | Op::WithFault { .. } | Op::DuringUnwind { .. } => op,
        op => Op::DuringUnwind { op: Box::new(op) },
    });
    prop_oneof![(1000 - p.unwind_w) => base, p.unwind_w => wrapped].boxed()
}

pub const ALL_COMPS: [Comp; 42] = [
    Comp::BothEndsThenFold,
    Comp::BothEndsThenCount,
    Comp::BacksThenFold,
    Comp::BacksThenCount,
    Comp::BacksThenLast,
    Comp::BacksThenForEach,
    Comp::NextsThenRfold,
    Comp::NextsThenLast,
    Comp::Rfold,
    Comp::FindThenRest,
    Comp::RfindThenRest,
    Comp::PositionThenRest,
    Comp::NextsThenCount,
    Comp::NthThenNthBack,
    Comp::NextsThenNthBack,
    Comp::BacksThenNth,
    Comp::SkipStepBy,
    Comp::RevSkip,
    Comp::RevStepBy,
    Comp::Take,
    Comp::Skip,
    Comp::StepBy,
    Comp::Zip,
    Comp::Peekable,
    Comp::Enumerate,
    Comp::Map,
    Comp::Rev,
    Comp::SkipTake,
    Comp::RevTake,
    Comp::EnumerateRev,
    Comp::ZipRev,
    Comp::SkipRev,
    Comp::Chain,
    Comp::Rposition,
    Comp::TakeRev,
    Comp::StepByRev,
    Comp::Last,
    Comp::Nth,
    Comp::NthBack,
    Comp::Count,
    Comp::Fold,
    Comp::CollectVec,
];

pub fn ctor_strategy(p: &Profile, u: u32, dom: u8) -> BoxedStrategy<Ctor> {
    // (weight, lo, hi) size classes; the vector itself shrinks towards `lo` elements
    let classes: Vec<(u32, usize, usize)> = if p.big { vec![(8, 50, 130), (4, 64, 260), (2, 513, 1100), (1, 1020, 1300)] } else { vec![
        (p.size_w[0], 0, 0),
        (p.size_w[1], 0, 1),
        (p.size_w[2], 1, 2),
        (p.size_w[3], 1, 3),
        (p.size_w[4], 2, 15),
        (p.size_w[5], 4, 64),
        (p.size_w[6], 8, 200),
        (p.size_w[7], 16, p.max_big.max(202)),
    ] }
    .into_iter()
    .filter(|c| c.0 > 0)
    .collect();
    let sizes: Vec<(u32, BoxedStrategy<(usize, usize)>)> = classes.into_iter().map(|(w, lo, hi)| (w, Just((lo, hi)).boxed())).collect();
    let how = prop_oneof![
        4 => Just(CtorKind::New),
        1 => prop_oneof![20 => 0u32..300, 1 => 8193u32..20000].prop_map(CtorKind::WithCapacity),
        1 => Just(CtorKind::WithHasher),
        1 => (0u32..300).prop_map(CtorKind::WithCapacityAndHasher),
        1 => Just(CtorKind::WithDefaultHasher),
        1 => (0u32..300).prop_map(CtorKind::WithCapacityAndDefaultHasher),
        1 => Just(CtorKind::Default),
        3 => Just(CtorKind::FromVec),
        3 => Just(CtorKind::FromIter),
        2 => Just(CtorKind::FromOther),
        1 => Just(CtorKind::Deserialize),
    ];
    (Union::new_weighted(sizes), how)
        .prop_flat_map(move |((lo, hi), how)| {
            // ids from a range about 1.5x the size, so that bulk constructors see repeats
            let idmax = (u.max(1) as usize).max(hi + hi / 2 + 1) as u32;
            // bias towards the upper end of the class: draw the length bound first
            (Just(how), (lo..hi + 1).prop_flat_map(move |n| vec((0..idmax, any::<u32>(), prio_val(dom)), lo.min(n)..n + 1)))
        })
        .prop_map(|(how, init)| Ctor { how, init })
        .boxed()
}

thread_local! {
    /// set while building strategies for a profile with `abstract_only`
    static ABSTRACT: std::cell::Cell<bool> = const { std::cell::Cell::new(false) };
}

pub fn case_strategy(p: &Profile) -> BoxedStrategy<Case> {
    if p.big_w > 0 && !p.big {
        let mut b = p.clone();
        b.big = true;
        b.max_ops = (p.max_ops * 3).min(if p.max_ops > 100 { 500 } else { 200 });
        b.ops = b
            .ops
            .into_iter()
            .map(|(n, w)| (n, if matches!(n, "push" | "pop" | "change_priority" | "remove") && w > 0 { w * 3 } else { w }))
            .collect();
        b.universe_w = [0, 0, 1, 2];
        let mut n = p.clone();
        n.big_w = 0;
        return prop_oneof![(100 - p.big_w) => case_strategy(&n), p.big_w => case_strategy(&b)].boxed();
    }
    let p = p.clone();
    let abstract_only = p.abstract_only;
    let kinds = proptest::sample::select(p.kinds.to_vec());
    let hashers = proptest::sample::select(p.hashers.to_vec());
    let uni = pick(&[4u32, 12, 64, 1024], &p.universe_w);
    let dom = pick(&[0u8, 1, 2, 3], &p.dom_w);
    (kinds, hashers, uni, dom)
        .prop_flat_map(move |(kind, hasher, u, dom)| {
            ABSTRACT.with(|a| a.set(abstract_only));
            let r = (
                Just(kind),
                Just(hasher),
                Just(u),
                ctor_strategy(&p, u, dom),
                vec(op_strategy(&p, kind, u, dom), 0..p.max_ops),
                1u8..9,
                any::<u64>(),
            );
            ABSTRACT.with(|a| a.set(false));
            r
        })
        .prop_map(|(kind, hasher, universe, ctor, ops, drain_every, drain_bits)| Case {
            kind,
            hasher,
            universe,
            ctor,
            ops,
            faults: vec![],
            drain_every,
            drain_bits,
            pad: 0,
        })
        .boxed()
}
