//! Shared oracles: full observation against the model, behavioural drain checks, raw table checks.

use crate::model::Model;
use crate::queue::*;

#[derive(Clone, Copy, PartialEq, Eq, Debug, PartialOrd, Ord, Hash)]
pub enum Group {
    /// extremes: peek/pop validity, pop addresses the peeked element, drain order
    Order,
    /// content: len / iter / get disagree with the model
    Content,
    /// a return value disagrees with the model
    Ret,
    /// payload (tag) disagrees
    Tag,
    /// an unwinding panic in fault-free use
    Panic,
    /// raw index tables inconsistent
    Tables,
    /// predicate / callback call log wrong
    Pred,
    /// iter_mut handed out the same element twice
    Alias,
    /// iter_mut exhaustion / len / size_hint contract
    IterMutContract,
    /// non-mutable iterator contracts
    IterStd,
    /// sorted consumption
    Sorted,
    /// size_hint metamorphic relation
    Hint,
    /// equality / clone independence
    EqClone,
    /// serde round trip
    Serde,
    /// capacity
    Cap,
    /// hasher dependence
    Hasher,
}

pub type RawFail = (Group, &'static str, String);

#[inline]
pub fn level(pos: usize) -> u32 {
    (usize::BITS - (pos + 1).leading_zeros()) - 1
}

/// heap and qp are inverse permutations of 0..size and all lengths agree
pub fn tables_consistent(s: &Snap, len: usize) -> Result<(), String> {
    if s.size != len || s.heap.len() != len || s.qp.len() != len || s.map_len != len {
        return Err(format!(
            "lengths disagree: len()={} size={} heap={} qp={} map={}",
            len,
            s.size,
            s.heap.len(),
            s.qp.len(),
            s.map_len
        ));
    }
    for (pos, &slot) in s.heap.iter().enumerate() {
        if slot >= len {
            return Err(format!("heap[{}]={} out of range {}", pos, slot, len));
        }
        if s.qp[slot] != pos {
            return Err(format!(
                "heap[{}]={} but qp[{}]={}",
                pos, slot, slot, s.qp[slot]
            ));
        }
    }
    Ok(())
}

/// raw heap order over positions (never an alarm by itself)
pub fn order_ok(s: &Snap, double: bool) -> bool {
    let pr = |i: usize| s.entries.get(i).and_then(|e| e.map(|x| x.1));
    for i in 1..s.heap.len() {
        let (Some(a), Some(p)) = (pr(i), pr((i - 1) / 2)) else {
            return false;
        };
        if !double {
            if p < a {
                return false;
            }
        } else {
            let even = level(i) % 2 == 0;
            // parent is on the other kind of level
            if even && a > p {
                return false;
            }
            if !even && a < p {
                return false;
            }
            if i >= 3 {
                let Some(g) = pr(((i - 1) / 2 - 1) / 2) else {
                    return false;
                };
                if even && a < g {
                    return false;
                }
                if !even && a > g {
                    return false;
                }
            }
        }
    }
    true
}

/// Full observation of a queue against the model.
pub fn check_queue<Q: Queue>(
    q: &Q,
    model: &Model,
    universe: u32,
    order_on: bool,
    tables: bool,
    out: &mut Vec<RawFail>,
) {
    let n = model.len();
    if q.len() != n {
        out.push((Group::Content, "len", format!("len()={} model={}", q.len(), n)));
    }
    if q.is_empty() != (n == 0) {
        out.push((
            Group::Content,
            "is_empty",
            format!("is_empty()={} model len={}", q.is_empty(), n),
        ));
    }
    // iter as a multiset
    let mut got: Vec<Elem> = q.iter().map(|(k, p)| elem(k, p)).collect();
    got.sort_unstable();
    let want = model.elems();
    if got != want {
        let g2: Vec<(u32, i64)> = got.iter().map(|e| (e.0, e.2)).collect();
        let w2: Vec<(u32, i64)> = want.iter().map(|e| (e.0, e.2)).collect();
        if g2 != w2 {
            out.push((
                Group::Content,
                "iter_content",
                format!("iter() yields {:?}, model holds {:?}", trunc(&got), trunc(&want)),
            ));
        } else {
            let d: Vec<_> = got
                .iter()
                .zip(want.iter())
                .filter(|(a, b)| a != b)
                .take(4)
                .collect();
            out.push((
                Group::Tag,
                "iter_tag",
                format!("payload differs (got, want): {:?}", d),
            ));
        }
    }
    // lookups
    let probe = |id: u32, out: &mut Vec<RawFail>| {
        let want = model.get(id);
        let g = q.get(&id).map(|(k, p)| elem(k, p));
        let gp = q.get_priority(&id).map(|p| p.v);
        match (want, g) {
            (None, None) => {}
            (Some((t, p)), Some((gid, gt, gpv))) => {
                if gid != id || gpv != p {
                    out.push((
                        Group::Content,
                        "get",
                        format!("get({}) = {:?}, model {:?}", id, g, want),
                    ));
                } else if gt != t {
                    out.push((
                        Group::Tag,
                        "get_tag",
                        format!("get({}) payload {} model {}", id, gt, t),
                    ));
                }
            }
            _ => out.push((
                Group::Content,
                "get",
                format!("get({}) = {:?}, model {:?}", id, g, want),
            )),
        }
        if gp != want.map(|w| w.1) {
            out.push((
                Group::Content,
                "get_priority",
                format!("get_priority({}) = {:?}, model {:?}", id, gp, want),
            ));
        }
    };
    if universe <= 64 {
        for id in 0..universe {
            probe(id, out);
        }
    } else {
        let stride = (n / 48).max(1);
        for (i, (&id, _)) in model.m.iter().enumerate() {
            if i % stride == 0 {
                probe(id, out);
            }
        }
        for k in 0..8u32 {
            probe(universe.wrapping_mul(k + 1).wrapping_add(k * 7919) % universe.max(1), out);
        }
    }
    // extremes
    if order_on {
        check_peek(q.peek_max().map(|(k, p)| elem(k, p)), model, true, out);
        if Q::DOUBLE {
            check_peek(q.peek_min().map(|(k, p)| elem(k, p)), model, false, out);
        }
    } else {
        // even without order the peeks must be None iff empty and return stored elements
        let pm = q.peek_max().map(|(k, p)| elem(k, p));
        if pm.is_none() != (n == 0) {
            out.push((
                Group::Content,
                "peek_none",
                format!("peek = {:?} with model len {}", pm, n),
            ));
        }
    }
    if tables {
        if let Err(e) = tables_consistent(&q.snapshot(), q.len()) {
            out.push((Group::Tables, "tables", e));
        }
    }
}

fn trunc(v: &[Elem]) -> Vec<Elem> {
    v.iter().take(24).copied().collect()
}

pub fn check_peek(got: Option<Elem>, model: &Model, max: bool, out: &mut Vec<RawFail>) {
    let name = if max { "peek_max" } else { "peek_min" };
    match got {
        None => {
            if !model.is_empty() {
                out.push((
                    Group::Order,
                    "peek_none_nonempty",
                    format!("{} = None but {} elements stored", name, model.len()),
                ));
            }
        }
        Some((id, tag, p)) => match model.get(id) {
            None => out.push((
                Group::Order,
                "peek_not_stored",
                format!("{} reports ({},{}) which is not stored", name, id, p),
            )),
            Some((mt, mp)) => {
                if mp != p {
                    out.push((
                        Group::Content,
                        "peek_prio",
                        format!("{} reports ({},{}) but stored priority is {}", name, id, p, mp),
                    ));
                } else {
                    let ext = if max { model.max_prio() } else { model.min_prio() };
                    if ext != Some(p) {
                        out.push((
                            Group::Order,
                            if max { "peek_not_max" } else { "peek_not_min" },
                            format!("{} reports ({},{}) but the extreme priority is {:?}", name, id, p, ext),
                        ));
                    }
                }
                if mt != tag {
                    out.push((
                        Group::Tag,
                        "peek_tag",
                        format!("{} payload {} model {}", name, tag, mt),
                    ));
                }
            }
        },
    }
}

/// Drain a clone by pops and compare each extraction with the model's extreme.
/// `pattern`: 0 = all max (PQ: pop), 1 = all min, 2 = mixed by `bits`.
pub fn drain_once<Q: Queue>(q: &Q, model: &Model, pattern: u8, bits: u64, out: &mut Vec<RawFail>) {
    let mut c = q.clone();
    let mut m = model.clone();
    let n = m.len();
    for i in 0..n + 1 {
        let take_max = match pattern {
            0 => true,
            1 => false,
            _ => (bits >> (i % 64)) & 1 == 1,
        };
        let pk = if take_max {
            c.peek_max().map(|(k, _)| k.id)
        } else {
            c.peek_min().map(|(k, _)| k.id)
        };
        let r = if take_max { c.pop_max() } else { c.pop_min() };
        let r = r.map(elem_owned);
        let what = if take_max { "pop_max" } else { "pop_min" };
        match r {
            None => {
                if !m.is_empty() {
                    out.push((
                        Group::Order,
                        "drain_short",
                        format!("drain: {} returned None with {} elements left (pop #{})", what, m.len(), i),
                    ));
                }
                break;
            }
            Some((id, tag, p)) => {
                let ext = if take_max { m.max_prio() } else { m.min_prio() };
                match m.get(id) {
                    None => {
                        out.push((
                            Group::Order,
                            "drain_not_stored",
                            format!("drain: {} #{} returned ({},{}) which is not (or no longer) stored", what, i, id, p),
                        ));
                        break;
                    }
                    Some((mt, mp)) => {
                        if mp != p {
                            out.push((
                                Group::Content,
                                "drain_prio",
                                format!("drain: {} #{} returned ({},{}) stored priority {}", what, i, id, p, mp),
                            ));
                            break;
                        }
                        if ext != Some(p) {
                            out.push((
                                Group::Order,
                                "drain_not_extreme",
                                format!(
                                    "drain: {} #{} returned ({},{}) but the extreme of the remaining {} elements is {:?}",
                                    what,
                                    i,
                                    id,
                                    p,
                                    m.len(),
                                    ext
                                ),
                            ));
                            break;
                        }
                        if pk != Some(id) {
                            out.push((
                                Group::Order,
                                "drain_pop_not_peeked",
                                format!("drain: {} #{} returned id {} but the preceding peek reported {:?}", what, i, id, pk),
                            ));
                            break;
                        }
                        if mt != tag {
                            out.push((
                                Group::Tag,
                                "drain_tag",
                                format!("drain: {} payload {} model {}", what, tag, mt),
                            ));
                        }
                        m.remove(id);
                    }
                }
            }
        }
    }
    if out.is_empty() && (c.len() != 0 || !c.is_empty()) {
        out.push((
            Group::Content,
            "drain_len",
            format!("drained clone reports len {}", c.len()),
        ));
    }
}

pub fn drain_check<Q: Queue>(q: &Q, model: &Model, bits: u64, out: &mut Vec<RawFail>) {
    drain_once(q, model, 0, bits, out);
    if Q::DOUBLE && out.is_empty() {
        drain_once(q, model, 1, bits, out);
        if out.is_empty() {
            drain_once(q, model, 2, bits, out);
        }
    }
}
