//! Structure-aware decoding of fuzzer bytes into a `Case` (hand-written: derive_arbitrary is not
//! in the offline cache). The decoded case runs through the same interpreter and oracles.

use arbitrary::{Result, Unstructured};

use crate::case::*;
use crate::types::*;

fn prio_val(u: &mut Unstructured, dom: u8) -> Result<i64> {
    Ok(match dom {
        0 => u.int_in_range(0..=1)?,
        1 => u.int_in_range(0..=7)?,
        2 => u.int_in_range(0..=63)?,
        _ => match u.int_in_range(0u8..=7)? {
            0 => i64::MAX,
            1 => i64::MIN,
            2 => i64::MAX - 1,
            3 => i64::MIN + 1,
            4 => u.int_in_range(-3..=3)?,
            _ => u.arbitrary::<i64>()?,
        },
    })
}

fn prio_spec(u: &mut Unstructured, dom: u8) -> Result<PrioSpec> {
    Ok(match u.int_in_range(0u8..=21)? {
        0 | 1 => PrioSpec::AboveMax(u.int_in_range(0..=2)?),
        2 | 3 => PrioSpec::BelowMin(u.int_in_range(0..=2)?),
        4 => PrioSpec::EqMax,
        5 => PrioSpec::EqMin,
        6 => PrioSpec::SameAsSlot(u.arbitrary()?),
        7 => PrioSpec::Unchanged,
        8 => PrioSpec::Delta(u.int_in_range(-2..=2)?),
        9 => PrioSpec::EqParent,
        10 => PrioSpec::BetweenParentGrand,
        _ => PrioSpec::Val(prio_val(u, dom)?),
    })
}

fn target(u: &mut Unstructured, uni: u32) -> Result<Target> {
    Ok(match u.int_in_range(0u8..=16)? {
        0..=2 => Target::Pos(u.arbitrary()?),
        3 | 4 => Target::Slot(u.arbitrary()?),
        5 => Target::Max,
        6 => Target::Min,
        _ => Target::Id(u.int_in_range(0..=uni.saturating_sub(1))?),
    })
}

fn rewrite(u: &mut Unstructured, dom: u8) -> Result<Rewrite> {
    Ok(match u.int_in_range(0u8..=9)? {
        0 => Rewrite::Keep,
        1 | 2 => Rewrite::Set(prio_val(u, dom)?),
        3 => Rewrite::Add(u.int_in_range(-3..=3)?),
        4 => Rewrite::Neg,
        5 => Rewrite::AboveMax,
        6 => Rewrite::BelowMin,
        7 => Rewrite::ToMax,
        8 => Rewrite::ToMin,
        _ => Rewrite::Scatter(u.arbitrary()?, u.int_in_range(1..=39)?),
    })
}

fn mask(u: &mut Unstructured) -> Result<u64> {
    Ok(match u.int_in_range(0u8..=7)? {
        0 => u64::MAX,
        1 => 0,
        2 => u.arbitrary::<u64>()? | u.arbitrary::<u64>()?,
        _ => u.arbitrary()?,
    })
}

fn end(u: &mut Unstructured, kind: Kind) -> Result<End> {
    Ok(if kind == Kind::DPQ && u.arbitrary::<bool>()? { End::Min } else { End::Max })
}

fn program(u: &mut Unstructured, max: usize) -> Result<Vec<ItCall>> {
    let n = u.int_in_range(0..=max)?;
    let mut v = Vec::with_capacity(n);
    for _ in 0..n {
        v.push(match u.int_in_range(0u8..=12)? {
            0..=5 => ItCall::Next,
            6..=8 => ItCall::Back,
            _ => ItCall::Probe,
        });
    }
    Ok(v)
}

fn hint(u: &mut Unstructured) -> Result<Hint> {
    Ok(match u.int_in_range(0u8..=10)? {
        0 | 1 => Hint::Exact,
        2 => Hint::Unknown,
        3 => Hint::LowerOnly,
        4 => Hint::UpperOnly,
        5 => Hint::Loose(u.int_in_range(0..=3)?, u.int_in_range(0..=5)?),
        6 => Hint::UpperPow(u.int_in_range(10..=12)?),
        7 => Hint::LowerShort(u.int_in_range(1..=6)?),
        8 => Hint::Half,
        9 => Hint::FreshLower,
        10 => Hint::FreshBounds,
        _ => Hint::UpperHuge(u.int_in_range(0..=3)?),
    })
}

fn pairs(u: &mut Unstructured, uni: u32, dom: u8, max: usize) -> Result<Vec<Pair>> {
    let n = u.int_in_range(0..=max)?;
    let range = match u.int_in_range(0u8..=2)? {
        0 => uni.min(6).max(1),
        1 => uni.max(1),
        _ => uni.saturating_mul(3).max(1),
    };
    let mut v = Vec::with_capacity(n);
    for _ in 0..n {
        v.push((u.int_in_range(0..=range - 1)?, u.arbitrary::<u32>()?, prio_spec(u, dom)?));
    }
    Ok(v)
}

pub fn decode_op(u: &mut Unstructured, kind: Kind, uni: u32, dom: u8, leaks: bool) -> Result<Op> {
    let endhow = |u: &mut Unstructured| -> Result<EndHow> { Ok(if leaks && u.int_in_range(0u8..=4)? == 0 { EndHow::Forget } else { EndHow::Drop }) };
    Ok(match u.int_in_range(0u8..=67)? {
        64 if u.arbitrary::<bool>()? => Op::IterMutEach { how: u.arbitrary()?, k: u.arbitrary()?, rw: rewrite(u, dom)?, rwmask: mask(u)? },
        64 => Op::Snapshot,
        65 | 66 => Op::RestoreFrom,
        67 => Op::Adapt { which: ItKind::IterMut, comp: *u.choose(&crate::gen::ALL_COMPS)?, a: u.arbitrary()?, b: u.arbitrary()? },
        0..=9 => Op::Push { t: target(u, uni)?, tag: u.arbitrary()?, p: prio_spec(u, dom)? },
        10 | 11 => Op::PushInc { t: target(u, uni)?, tag: u.arbitrary()?, p: prio_spec(u, dom)? },
        12 | 13 => Op::PushDec { t: target(u, uni)?, tag: u.arbitrary()?, p: prio_spec(u, dom)? },
        14..=19 => Op::Change { t: target(u, uni)?, p: prio_spec(u, dom)?, by_ref: u.arbitrary()? },
        20..=22 => Op::ChangeBy { t: target(u, uni)?, rw: rewrite(u, dom)?, by_ref: u.arbitrary()? },
        23..=28 => Op::Remove { t: target(u, uni)?, by_ref: u.arbitrary()? },
        29..=33 => Op::Pop { end: end(u, kind)? },
        34..=36 => Op::PopIf { end: end(u, kind)?, ans: u.arbitrary()?, rw: rewrite(u, dom)?, tagw: u.arbitrary()? },
        37 => Op::PeekMut { end: end(u, kind)?, tagw: u.arbitrary()? },
        38 => Op::GetMut { t: target(u, uni)?, tagw: u.arbitrary()?, by_ref: u.arbitrary()? },
        39 => Op::Get { t: target(u, uni)?, by_ref: u.arbitrary()? },
        40 => Op::Retain { mask: mask(u)? },
        41 | 42 => Op::RetainMut { mask: mask(u)?, rw: rewrite(u, dom)?, rwmask: mask(u)?, tagw: u.arbitrary()? },
        43 | 44 => Op::IterMut { prog: program(u, 20)?, rw: rewrite(u, dom)?, rwmask: mask(u)?, tagw: u.arbitrary()?, end: endhow(u)?, via_into: u.arbitrary()?, late: false },
        45 => Op::IterProg {
            which: match u.int_in_range(0u8..=3)? {
                0 => ItKind::Iter,
                1 => ItKind::RefIntoIter,
                2 => ItKind::IntoIter,
                _ => ItKind::Sorted,
            },
            prog: program(u, 20)?,
            end: EndHow::Drop,
        },
        46 => Op::IterProg { which: ItKind::Drain, prog: program(u, 20)?, end: endhow(u)? },
        47 | 48 => Op::Extend { pairs: pairs(u, uni, dom, 48)?, hint: hint(u)? },
        49 => Op::Append { pairs: pairs(u, uni, dom, 48)?, swap_roles: u.arbitrary()?, mirror: u.int_in_range(0u8..=3)? == 0, cap: if u.arbitrary()? { u.arbitrary()? } else { 0 } },
        50 => Op::RebuildFromVec { extra: pairs(u, uni, dom, 16)? },
        51 => Op::RebuildFromIter { extra: pairs(u, uni, dom, 16)?, hint: hint(u)? },
        52 => Op::ConvertRound,
        53 => Op::Serde {
            carrier: match u.int_in_range(0u8..=3)? {
                0 => Carrier::JsonText,
                1 => Carrier::JsonValue,
                2 => Carrier::InPlace,
                3 if u.arbitrary::<bool>()? => Carrier::SeqHint(u.int_in_range(-5..=8)?),
                _ => Carrier::SeqDe,
            },
            cross: u.arbitrary()?,
        },
        54 => Op::CloneReplace,
        55 => Op::Clear,
        56 => Op::Reserve {
            how: match u.int_in_range(0u8..=3)? {
                0 => ResKind::Reserve,
                1 => ResKind::ReserveExact,
                2 => ResKind::TryReserve,
                _ => ResKind::TryReserveExact,
            },
            amt: Amount::Small(u.int_in_range(0..=300)?),
        },
        57 => Op::Reserve { how: if u.arbitrary()? { ResKind::TryReserve } else { ResKind::TryReserveExact }, amt: Amount::Huge(u.int_in_range(0..=5)?) },
        58 => Op::Shrink,
        59 => Op::Sorted {
            how: match u.int_in_range(0u8..=3)? {
                0 => SortedHow::Iter,
                1 => SortedHow::IterRev,
                2 => SortedHow::DescVec,
                _ => SortedHow::AscVec,
            },
            prog: program(u, 20)?,
        },
        60 => Op::EqProbe,
        61 => Op::IntoVecRebuild,
        62 => Op::Adapt {
            which: match u.int_in_range(0u8..=4)? {
                0 => ItKind::Iter,
                1 => ItKind::RefIntoIter,
                2 => ItKind::IntoIter,
                3 => ItKind::Drain,
                _ => ItKind::Sorted,
            },
            comp: *u.choose(&crate::gen::ALL_COMPS)?,
            a: u.arbitrary()?,
            b: u.arbitrary()?,
        },
        _ => {
            let n = u.int_in_range(0..=24)?;
            let mut v = Vec::with_capacity(n);
            for _ in 0..n {
                v.push((u.int_in_range(0..=uni.max(1) - 1)?, u.arbitrary::<u32>()?, prio_val(u, dom)?));
            }
            Op::DeserSeq {
                pairs: v,
                carrier: match u.int_in_range(0u8..=2)? {
                    0 => Carrier::JsonText,
                    1 => Carrier::JsonValue,
                    _ => Carrier::SeqDe,
                },
                cross: u.arbitrary()?,
            }
        }
    })
}

/// Decode a whole case. `faults`: wrap some ops in WithFault (C10 campaigns).
pub fn decode_case(data: &[u8], faults: bool, leaks: bool) -> Result<Case> {
    let mut u = Unstructured::new(data);
    let kind = if u.arbitrary::<bool>()? { Kind::DPQ } else { Kind::PQ };
    let hasher = *u.choose(&[HasherKind::Fixed, HasherKind::Random, HasherKind::Xx, HasherKind::Keyed, HasherKind::Colliding, HasherKind::Coarse, HasherKind::OneShot])?;
    let universe = *u.choose(&[4u32, 12, 64, 1024])?;
    let dom = u.int_in_range(0u8..=3)?;
    let how = match u.int_in_range(0u8..=10)? {
        0 | 1 => CtorKind::New,
        2 => CtorKind::WithCapacity(u.int_in_range(0..=300)?),
        3 => CtorKind::WithHasher,
        4 => CtorKind::WithCapacityAndHasher(u.int_in_range(0..=300)?),
        5 => CtorKind::WithDefaultHasher,
        6 => CtorKind::Default,
        7 => CtorKind::FromVec,
        8 => CtorKind::FromIter,
        9 => CtorKind::FromOther,
        _ => CtorKind::Deserialize,
    };
    let n = match u.int_in_range(0u8..=7)? {
        0 => 0,
        1 => u.int_in_range(1..=3)?,
        2..=4 => u.int_in_range(4..=15)?,
        5 | 6 => u.int_in_range(16..=64)?,
        _ => u.int_in_range(65..=160)?,
    };
    let idmax = (universe as usize).max(n + n / 2 + 1) as u32;
    let mut init = Vec::with_capacity(n);
    for _ in 0..n {
        init.push((u.int_in_range(0..=idmax - 1)?, u.arbitrary::<u32>()?, prio_val(&mut u, dom)?));
    }
    let mut ops = Vec::new();
    while !u.is_empty() && ops.len() < 200 {
        let op = decode_op(&mut u, kind, universe, dom, leaks)?;
        if faults && u.int_in_range(0u8..=2)? == 0 {
            let fk = *u.choose(&FAULT_KINDS)?;
            ops.push(Op::WithFault { kind: fk, k: u.arbitrary()?, op: Box::new(op) });
        } else {
            ops.push(op);
        }
    }
    Ok(Case { kind, hasher, universe, ctor: Ctor { how, init }, ops, faults: vec![], drain_every: 3, drain_bits: 0x9696_9696_5a5a_5a5a, pad: 0 })
}

/// Entry point of the libFuzzer target. PQV_PROP selects the property (default 0 = every clause),
/// PQV_FUZZ_OUT the directory that receives the JSON form of a failing case.
pub fn fuzz_entry(data: &[u8]) {
    use std::sync::OnceLock;
    static PROP: OnceLock<u8> = OnceLock::new();
    let prop = *PROP.get_or_init(|| {
        // replace libfuzzer-sys's abort-on-panic hook: panics of the code under test are caught
        // and judged by the oracles; a violation aborts explicitly below
        crate::runner::install_panic_hook();
        std::env::var("PQV_PROP").ok().and_then(|p| p.trim_start_matches('C').parse().ok()).unwrap_or(0)
    });
    let Ok(case) = decode_case(data, prop == 10, matches!(prop, 0 | 4 | 10 | 16)) else { return };
    let failure = if prop == 10 {
        let mut st = crate::interp::Stats::default();
        match crate::fault::fault_verdict(&case, &mut st) {
            crate::special::SVerdict::Fail(f) => Some(f),
            _ => None,
        }
    } else {
        let cfg = crate::runner::cfg_for(prop, &case);
        match crate::runner::run_one(&case, &cfg, false).verdict {
            crate::runner::Verdict::Fail(f) => Some(f),
            _ => None,
        }
    };
    if let Some(f) = failure {
        let dir = std::env::var("PQV_FUZZ_OUT").unwrap_or_else(|_| ".".into());
        let _ = std::fs::create_dir_all(&dir);
        let path = format!("{}/fuzz-{:016x}.json", dir, case.hash64());
        let _ = std::fs::write(&path, case.to_json());
        eprintln!("PQV-FUZZ-VIOLATION {} {} -> {}", f.signature(), f.detail, path);
        std::process::abort();
    }
}
