//! C14 (equality over two independent routes; clone independence) and C18 (hasher independence).

use std::cell::RefCell;
use std::panic::{catch_unwind, AssertUnwindSafe};

use proptest::collection::vec;
use proptest::prelude::*;
use proptest::test_runner::{Config, RngAlgorithm, TestCaseError, TestError, TestRng, TestRunner};
use serde::{Deserialize, Serialize};

use crate::case::*;
use crate::gen;
use crate::interp::*;
use crate::model::Model;
use crate::oracle::*;
use crate::queue::*;
use crate::runner::*;
use crate::types::*;

// ---------------------------------------------------------------------------------------------
// C14

#[derive(Clone, Copy, PartialEq, Eq, Debug, Serialize, Deserialize, Hash)]
pub enum NearMiss {
    OnePriority,
    OneRemoved,
    OneAdded,
    TwoExchanged,
}

#[derive(Clone, PartialEq, Eq, Debug, Serialize, Deserialize, Hash)]
pub struct EqCase {
    pub kind: Kind,
    pub universe: u32,
    /// the common content S
    pub content: Vec<(u32, u32, i64)>,
    /// two independent histories, equalised to S afterwards
    pub a: Case,
    pub b: Case,
    pub order_a: u64,
    pub order_b: u64,
    pub miss: NearMiss,
    pub miss_at: u16,
    /// lock-step continuation on a source and its clone
    pub cont: Vec<Op>,
    /// applied to the clone only
    pub one_sided: Vec<Op>,
}
impl EqCase {
    pub fn hash64(&self) -> u64 {
        use std::hash::{Hash, Hasher};
        let mut h = std::collections::hash_map::DefaultHasher::new();
        self.hash(&mut h);
        h.finish()
    }
}

pub fn eq_case_strategy(thorough: bool) -> BoxedStrategy<EqCase> {
    let mut p = gen::profile(14, thorough);
    p.max_ops = if thorough { 60 } else { 25 };
    p.ops = p.ops.into_iter().map(|(n, w)| (n, match n { "clone" => 14, "get_mut" | "peek_mut" => 8, "change_priority" => 12, _ => w })).collect();
    p.size_w = [1, 1, 1, 1, 4, 2, 0, 0];
    let kinds = proptest::sample::select(vec![Kind::PQ, Kind::DPQ]);
    (kinds, gen::case_strategy(&p), gen::case_strategy(&p), 0u8..4)
        .prop_flat_map(move |(kind, a, b, dom)| {
            let u = a.universe.max(b.universe).min(64);
            let mut pc = gen::profile(14, false);
            pc.ops = pc.ops.into_iter().map(|(n, w)| (n, if matches!(n, "drain" | "clear" | "eq" | "clone" | "serde" | "adaptor" | "iter" | "into_vec") { 0 } else { w })).collect();
            (
                Just(kind),
                Just(u),
                prop_oneof![
                    15 => vec((0..u.max(1), any::<u32>(), gen::prio_val(dom)), 0..56),
                    // contents above internal size thresholds (e.g. a fast path for > 256 entries)
                    1 => vec((0u32..1200, any::<u32>(), gen::prio_val(dom)), 300..420),
                ],
                Just(a),
                Just(b),
                any::<u64>(),
                any::<u64>(),
                prop_oneof![Just(NearMiss::OnePriority), Just(NearMiss::OneRemoved), Just(NearMiss::OneAdded), Just(NearMiss::TwoExchanged)],
                any::<u16>(),
                vec(gen::op_strategy(&pc, kind, u.max(1), dom), 0..20),
                vec(gen::op_strategy(&pc, kind, u.max(1), dom), 0..12),
            )
        })
        .prop_map(|(kind, universe, content, mut a, mut b, order_a, order_b, miss, miss_at, cont, one_sided)| {
            a.kind = kind;
            b.kind = kind;
            a.universe = universe.max(1);
            b.universe = universe.max(1);
            // histories were generated for possibly the other kind: drop ops the kind lacks is done by the interpreter
            EqCase { kind, universe, content, a, b, order_a, order_b, miss, miss_at, cont, one_sided }
        })
        .boxed()
}

/// bring a queue (with its model) to exactly the content `s`, in an order derived from `bits`
fn equalise<Q: Queue>(it: &mut Interp<Q>, s: &Model, bits: u64) {
    let cur: Vec<u32> = it.model.m.keys().copied().collect();
    let mut surplus: Vec<u32> = cur.into_iter().filter(|id| !s.contains(*id)).collect();
    if bits & 1 == 1 {
        surplus.reverse();
    }
    for id in surplus {
        it.q.remove(&id);
        it.model.remove(id);
    }
    let mut want = s.elems();
    let n = want.len().max(1);
    want.rotate_left((bits >> 8) as usize % n);
    if bits & 2 == 2 {
        want.reverse();
    }
    for (i, (id, tag, p)) in want.into_iter().enumerate() {
        match it.model.get(id) {
            None => {
                // detour: insert with another priority first, then correct it
                if (bits >> (16 + i % 40)) & 1 == 1 {
                    it.q.push(Key::new(id, tag), Prio::new(p.wrapping_add(3)));
                    it.q.change_priority(&id, Prio::new(p));
                } else {
                    it.q.push(Key::new(id, tag), Prio::new(p));
                }
                it.model.set(id, tag, p);
            }
            Some((_, cp)) => {
                if cp != p {
                    it.q.change_priority(&id, Prio::new(p));
                    it.model.set_prio(id, p);
                }
            }
        }
    }
    if bits & 4 == 4 {
        it.q.shrink_to_fit();
    }
    if bits & 8 == 8 {
        it.q.reserve(17);
    }
}

/// run one route; a failure the property owns (a clone / eq operation inside the route) is a
/// violation, any other failure makes the route unusable (judged by its own property)
fn run_route<'c, Q: Queue>(case: &'c Case, cfg: &'c RunCfg) -> Result<Option<Interp<'c, Q>>, Failure> {
    let (mut it, early) = Interp::<Q>::start(case, cfg, false);
    match early {
        Some(Outcome::Fail(f)) => return Err(f),
        Some(_) => return Ok(None),
        None => {}
    }
    for (i, op) in case.ops.iter().enumerate() {
        match it.step_op(i, op) {
            Some(Outcome::Fail(f)) => return Err(f),
            Some(_) => return Ok(None),
            None => {}
        }
    }
    Ok(Some(it))
}

fn eq_run<QA, QB>(c: &EqCase, stats: &mut Stats) -> Result<bool, Failure>
where
    QA: Queue + PartialEq<QB>,
    QB: Queue + PartialEq<QA>,
{
    let fail = |clause: &'static str, detail: String| Failure { group: Group::EqClone, clause, step: 0, op: "eq", detail, kind: QA::NAME };
    let cfg = RunCfg { prop: 14, hint_meta: false, tables: true, universe: c.universe.max(1), raw: false, strict_trace: false };
    let Some(mut ia) = run_route::<QA>(&c.a, &cfg)? else { return Ok(false) };
    let Some(mut ib) = run_route::<QB>(&c.b, &cfg)? else { return Ok(false) };
    let s = {
        let mut m = Model::new();
        for &(id, t, p) in c.content.iter() {
            m.set(id, t, p);
        }
        m
    };
    equalise(&mut ia, &s, c.order_a);
    equalise(&mut ib, &s, c.order_b);
    // sanity of the harness's own equalisation (observed content == S); a mismatch here is a
    // content defect judged by C03, not by this property
    let mut o = Vec::new();
    check_queue(&ia.q, &ia.model, 0, false, false, &mut o);
    check_queue(&ib.q, &ib.model, 0, false, false, &mut o);
    let ip = |m: &Model| m.elems().iter().map(|e| (e.0, e.2)).collect::<Vec<_>>();
    if !o.is_empty() || ip(&ia.model) != ip(&s) || ip(&ib.model) != ip(&s) {
        stats.hit("eq_route_unusable");
        return Ok(false);
    }
    let (a, b) = (&ia.q, &ib.q);
    let n = s.len();
    if !(a == b) || !(b == a) || a != b || b != a {
        return Err(fail(
            "same_content_not_equal",
            format!("two queues holding the same {} pairs compare unequal: a==b {} b==a {} a!=b {} ({:?})", n, a == b, b == a, a != b, s.elems().iter().take(12).collect::<Vec<_>>()),
        ));
    }
    if !a.eq_q(a) || a.ne_q(a) || !b.eq_q(b) {
        return Err(fail("not_reflexive", "a queue does not compare equal to itself".into()));
    }
    let sa = a.snapshot();
    let sb = b.snapshot();
    let different_arrangement = sa.heap != sb.heap || sa.qp != sb.qp;
    if different_arrangement {
        stats.hit("eq_different_arrangement");
    }
    if a.capacity() != b.capacity() {
        stats.hit("eq_different_capacity");
    }
    // transitivity through a third, bulk-built queue
    set_default_hb(c.b.hasher);
    let mut v = s.elems();
    v.reverse();
    let third = QB::from_vec(v.iter().map(|&(id, t, p)| (Key::new(id, t.wrapping_add(1)), Prio::new(p))).collect());
    if !(a == &third) || !(&third == a) || !third.eq_q(b) {
        return Err(fail("not_transitive", format!("a == b but the same content built by From<Vec> compares unequal ({} pairs)", n)));
    }
    // near misses: the generated one, plus (cheap, deterministic) the entries where the two
    // iteration orders first diverge and a spread of positions - a comparison that skips one
    // particular entry must not go unnoticed
    {
        let elems = s.elems();
        let mut picks: Vec<usize> = Vec::new();
        if n > 0 {
            picks.push((c.miss_at as usize * n) >> 16);
            let oa: Vec<u32> = a.iter().map(|(k, _)| k.id).collect();
            let ob: Vec<u32> = b.iter().map(|(k, _)| k.id).collect();
            if let Some(i) = oa.iter().zip(ob.iter()).position(|(x, y)| x != y) {
                for id in [oa[i], ob[i]] {
                    if let Some(p) = elems.iter().position(|e| e.0 == id) {
                        picks.push(p);
                    }
                }
                stats.hit("eq_divergence_point_probed");
            }
            // the first and the last slots of either arrangement (a comparison that strips common
            // prefixes / suffixes must still look at their priorities)
            for ord in [&oa, &ob] {
                for j in [0usize, 1, ord.len().saturating_sub(2), ord.len() - 1] {
                    if let Some(p) = ord.get(j).and_then(|id| elems.iter().position(|e| e.0 == *id)) {
                        picks.push(p);
                    }
                }
            }
            if n > 64 {
                for j in 0..16 {
                    picks.push(j * (n - 1) / 15);
                }
            }
        }
        picks.sort_unstable();
        picks.dedup();
        // the generated pick first (it carries the generated kind of near miss)
        if n > 0 {
            let g = (c.miss_at as usize * n) >> 16;
            picks.retain(|p| *p != g);
            picks.insert(0, g);
        }
        let variants: Vec<(NearMiss, usize)> = if n == 0 {
            vec![(NearMiss::OneAdded, 0)]
        } else {
            picks.iter().enumerate().map(|(j, &p)| (if j == 0 { c.miss } else if j % 2 == 1 { NearMiss::OnePriority } else { NearMiss::OneRemoved }, p)).collect()
        };
        for (miss, pick) in variants {
            if miss == NearMiss::OneRemoved || miss == NearMiss::OnePriority {
                // replaced in place: a fresh item with the same priority is pushed first and the old one
                // removed afterwards, so that the fresh one lands in the recycled slot (and, mostly, at the
                // same heap position): index tables, length, first and last slots all agree with the source
                let mut v2 = ib.q.clone();
                let fresh = s.m.keys().next_back().map_or(0, |m| m + 1).max(c.universe);
                v2.push(Key::new(fresh, 0), Prio::new(elems[pick].2));
                v2.remove(&elems[pick].0);
                stats.hit("eq_near_miss");
                if v2.snapshot().heap == ib.q.snapshot().heap {
                    stats.hit("eq_near_miss_same_tables");
                }
                if a == &v2 || &v2 == a || !(a != &v2) || v2.eq_q(&ib.q) || ib.q.eq_q(&v2) {
                    return Err(fail(
                        "different_content_equal",
                        format!(
                            "queues of {} pairs of which one holds item {} in place of {:?} (pushed first, then the other removed) compare equal (a==v {} v==a {} v==b {} b==v {})",
                            n,
                            fresh,
                            elems.get(pick),
                            a == &v2,
                            &v2 == a,
                            v2.eq_q(&ib.q),
                            ib.q.eq_q(&v2)
                        ),
                    ));
                }
            }
            let mut vq = ib.q.clone();
            let applied = match miss {
                NearMiss::OnePriority => {
                    let (id, _, p) = elems[pick];
                    vq.change_priority(&id, Prio::new(p.wrapping_add(1)));
                    true
                }
                NearMiss::OneRemoved => {
                    // same length: remove one, add a fresh one
                    vq.remove(&elems[pick].0);
                    if pick % 2 == 0 {
                        let fresh = s.m.keys().next_back().map_or(0, |m| m + 1).max(c.universe);
                        vq.push(Key::new(fresh, 0), Prio::new(elems[pick].2));
                    }
                    true
                }
                NearMiss::OneAdded => {
                    let fresh = s.m.keys().next_back().map_or(0, |m| m + 1).max(c.universe);
                    vq.push(Key::new(fresh, 0), Prio::new(elems.first().map_or(0, |e| e.2)));
                    true
                }
                NearMiss::TwoExchanged => {
                    let (i1, _, p1) = elems[pick];
                    match elems.iter().find(|e| e.2 != p1) {
                        Some(&(i2, _, p2)) => {
                            vq.change_priority(&i1, Prio::new(p2));
                            vq.change_priority(&i2, Prio::new(p1));
                            stats.hit("eq_exchanged_priorities");
                            true
                        }
                        None => false,
                    }
                }
            };
            if applied {
                stats.hit("eq_near_miss");
                if a == &vq || &vq == a || !(a != &vq) || vq.eq_q(&ib.q) || ib.q.eq_q(&vq) {
                    return Err(fail(
                        "different_content_equal",
                        format!(
                            "queues of {} pairs differing by {:?} at element {:?} compare equal (a==v {} v==a {} v==b {} b==v {})",
                            n,
                            miss,
                            elems.get(pick),
                            a == &vq,
                            &vq == a,
                            vq.eq_q(&ib.q),
                            ib.q.eq_q(&vq)
                        ),
                    ));
                }
            }
        }
    }
    // clone_from onto a target that already holds the same pairs in another arrangement
    {
        set_default_hb(c.a.hasher);
        let mut v = s.elems();
        v.reverse();
        let mut t = QA::from_vec(v.iter().map(|&(id, tg, p)| (Key::new(id, tg), Prio::new(p))).collect());
        t.clone_from(a);
        let mut o = Vec::new();
        check_queue(&t, &ia.model, 0, true, false, &mut o);
        if o.is_empty() && !s.is_empty() {
            drain_check(&t, &ia.model, c.order_b, &mut o);
        }
        if !t.eq_q(a) {
            return Err(fail("clone_from_ne_source", "after clone_from onto an equal-content target the queues differ".into()));
        }
        if let Some(f) = o.into_iter().find(|f| matches!(f.0, Group::Order | Group::Content)) {
            return Err(fail("clone_from_same_set_broken", format!("clone_from onto a target holding the same pairs in another order leaves a broken queue: {}", f.2)));
        }
        stats.hit("clone_from_same_set");
    }
    // clone part: lock-step continuation on source and clone
    let mut src = ia;
    let cloned = if c.order_a & 16 == 16 {
        src.q.clone()
    } else {
        // Clone::clone_from into a destination with unrelated leftovers of another length
        set_default_hb(c.a.hasher);
        let k = (c.order_a >> 20) as usize % 7;
        let mut dst = QA::from_vec((0..k as u32).map(|i| (Key::new(1_000_000 + i, 0), Prio::new(i as i64 - 3))).collect());
        dst.clone_from(&src.q);
        stats.hit("clone_from_used");
        dst
    };
    if !cloned.eq_q(&src.q) || !src.q.eq_q(&cloned) {
        return Err(fail("clone_ne_source", "a clone does not compare equal to its source".into()));
    }
    let mut cl = Interp {
        q: cloned,
        model: src.model.clone(),
        case: src.case,
        cfg: src.cfg,
        stats: Stats::default(),
        step: 0,
        opname: "clone",
        order_on: src.order_on,
        fails: vec![],
        removed: Default::default(),
        disturbed: false,
        after_special: false,
        force_drain: false,
        trace: Some(vec![]),
        snapshot: None,
        pending_order_off: false,
    };
    src.trace = Some(vec![]);
    src.order_on = true;
    cl.order_on = true;
    let mut mutating = 0;
    for (i, op) in c.cont.iter().enumerate() {
        let ra = src.step_op(i, op);
        let rb = cl.step_op(i, op);
        if ra.is_some() || rb.is_some() {
            // a model-level failure on one side only is a divergence between clone and source
            if ra.is_some() != rb.is_some() {
                return Err(fail("clone_diverges", format!("continuation step {} ({}) fails on only one of source and clone", i, op.name())));
            }
            return Ok(false);
        }
        if !matches!(op, Op::Get { .. } | Op::IterProg { .. } | Op::Adapt { .. } | Op::Sorted { .. } | Op::EqProbe | Op::IntoVecRebuild) {
            mutating += 1;
        }
    }
    if src.trace != cl.trace {
        return Err(fail("clone_trace_differs", "source and clone returned different values under the same continuation".into()));
    }
    if mutating >= 5 {
        stats.hit("clone_lockstep_5");
    }
    if !src.q.eq_q(&cl.q) {
        return Err(fail("clone_ne_after_lockstep", "source and clone differ after identical continuations".into()));
    }
    // one-sided continuation on the clone: the source must be untouched
    let before = src.model.clone();
    for (i, op) in c.one_sided.iter().enumerate() {
        if cl.step_op(1000 + i, op).is_some() {
            return Ok(false);
        }
    }
    let mut o = Vec::new();
    check_queue(&src.q, &before, c.universe, true, false, &mut o);
    if o.is_empty() && !before.is_empty() {
        drain_check(&src.q, &before, 0x3333_3333_3333_3333, &mut o);
    }
    if let Some(f) = o.into_iter().next() {
        return Err(fail("mutating_clone_affects_source", format!("after mutating only the clone the source changed: {}", f.2)));
    }
    if !c.one_sided.is_empty() {
        stats.hit("clone_one_sided");
    }
    Ok(n >= 3 && (different_arrangement || mutating >= 5))
}

pub fn eq_dispatch(c: &EqCase, stats: &mut Stats) -> Result<bool, Failure> {
    let ra = c.a.hasher == HasherKind::Random;
    let rb = c.b.hasher == HasherKind::Random;
    match (c.kind, ra, rb) {
        #[cfg(feature = "std")]
        (Kind::PQ, true, true) => eq_run::<PqRs, PqRs>(c, stats),
        #[cfg(feature = "std")]
        (Kind::PQ, true, false) => eq_run::<PqRs, PqHb>(c, stats),
        #[cfg(feature = "std")]
        (Kind::PQ, false, true) => eq_run::<PqHb, PqRs>(c, stats),
        (Kind::PQ, _, _) => eq_run::<PqHb, PqHb>(c, stats),
        #[cfg(feature = "std")]
        (Kind::DPQ, true, true) => eq_run::<DpqRs, DpqRs>(c, stats),
        #[cfg(feature = "std")]
        (Kind::DPQ, true, false) => eq_run::<DpqRs, DpqHb>(c, stats),
        #[cfg(feature = "std")]
        (Kind::DPQ, false, true) => eq_run::<DpqHb, DpqRs>(c, stats),
        (Kind::DPQ, _, _) => eq_run::<DpqHb, DpqHb>(c, stats),
    }
}

pub enum SVerdict {
    Pass(bool),
    Fail(Failure),
    HarnessBug(String),
}

fn guarded<F: FnOnce() -> Result<bool, Failure>>(kind: Kind, f: F) -> SVerdict {
    disarm_fuse();
    match catch_unwind(AssertUnwindSafe(f)) {
        Ok(Ok(nt)) => SVerdict::Pass(nt),
        Ok(Err(f)) => SVerdict::Fail(f),
        Err(_) => {
            let (msg, loc) = last_panic();
            if is_harness_location(&loc) {
                SVerdict::HarnessBug(format!("{} @ {}", msg, loc))
            } else {
                let (step, op) = CUR_STEP.with(|c| c.get());
                SVerdict::Fail(Failure { group: Group::Panic, clause: "panic", step, op, detail: format!("panicked: {} @ {}", msg, loc), kind: if kind == Kind::PQ { "PQ" } else { "DPQ" } })
            }
        }
    }
}

pub fn eq_verdict(c: &EqCase, stats: &mut Stats) -> SVerdict {
    let v = guarded(c.kind, || eq_dispatch(c, stats));
    // a panic during the routes is not this property's business unless it happens in eq/clone
    match v {
        SVerdict::Fail(f) if f.group == Group::Panic && !matches!(f.op, "eq" | "clone") => SVerdict::Pass(false),
        v => v,
    }
}

// ---------------------------------------------------------------------------------------------
// C18

pub fn hasher_verdict(case: &Case, stats: &mut Stats) -> SVerdict {
    let cfg = RunCfg { prop: 0, hint_meta: false, tables: false, universe: case.universe.max(1), raw: false, strict_trace: false };
    let mut results: Vec<(HasherKind, Option<String>, Option<Vec<TraceEv>>)> = Vec::new();
    let mut hashers = vec![HasherKind::Fixed, HasherKind::Random, HasherKind::Keyed, HasherKind::Xx, HasherKind::Colliding, HasherKind::Coarse, HasherKind::OneShot];
    if cfg!(not(feature = "std")) {
        hashers = vec![HasherKind::Fixed, HasherKind::Xx, HasherKind::Colliding, HasherKind::Coarse, HasherKind::OneShot];
    }
    for &h in hashers.iter() {
        let mut c = case.clone();
        c.hasher = h;
        let r = run_one(&c, &cfg, true);
        if h == HasherKind::Fixed {
            *stats = r.stats.clone();
        }
        match r.verdict {
            Verdict::Pass => results.push((h, None, r.trace)),
            Verdict::Fail(f) | Verdict::Foreign(f) => results.push((h, Some(format!("{} at step {} ({}): {}", f.signature(), f.step, f.op, f.detail)), None)),
            Verdict::HarnessBug(m) => return SVerdict::HarnessBug(m),
        }
    }
    stats.hit("hasher_configs_run");
    let base = &results[0];
    for r in results.iter().skip(1) {
        let fail = |clause: &'static str, detail: String| SVerdict::Fail(Failure { group: Group::Hasher, clause, step: 0, op: "history", detail, kind: if case.kind == Kind::PQ { "PQ" } else { "DPQ" } });
        match (&base.1, &r.1) {
            (None, None) => {
                if base.2 != r.2 {
                    let (ta, tb) = (base.2.as_ref().unwrap(), r.2.as_ref().unwrap());
                    let at = ta.iter().zip(tb.iter()).position(|(x, y)| x != y).unwrap_or(ta.len().min(tb.len()));
                    return fail(
                        "trace_differs",
                        format!("return values differ between hashers {:?} and {:?} at event {}: {:?} vs {:?}", base.0, r.0, at, ta.get(at), tb.get(at)),
                    );
                }
            }
            (Some(_), Some(_)) => {}
            (None, Some(e)) => return fail("fails_only_under_one_hasher", format!("the history is correct under {:?} but not under {:?}: {}", base.0, r.0, e)),
            (Some(e), None) => return fail("fails_only_under_one_hasher", format!("the history is correct under {:?} but not under {:?}: {}", r.0, base.0, e)),
        }
    }
    let n = |e: &str| stats.n(e);
    let nt = base.1.is_none()
        && stats.steps >= 10
        && stats.max_size >= 4
        && n("remove_present") > 0
        && (n("update_up") + n("update_down")) > 0
        && n("extract_checked") > 0;
    SVerdict::Pass(nt)
}

// ---------------------------------------------------------------------------------------------
// generic proptest loop for special case types

pub fn run_special<T, S, F, H>(a: &WorkerArgs, strat: S, verdict: F, hash: H, size_of: impl Fn(&T) -> usize) -> WorkerReport
where
    T: Serialize + std::fmt::Debug + Clone,
    S: Strategy<Value = T>,
    F: Fn(&T, &mut Stats) -> SVerdict,
    H: Fn(&T) -> u64,
{
    let t0 = std::time::Instant::now();
    let prop = a.prop;
    let pid = format!("C{:02}", prop);
    let known = if a.strict { vec![] } else { load_known(&a.known_path, &pid) };
    let mut acc = Accum::new(prop, a.worker, a.seed);
    let mut journal = Journal::open(&format!("{}/w{}.case", a.work_dir, a.worker));
    let mut remaining = a.cases;
    let mut leg = 0;
    let mut failures_left = 3;
    while remaining > 0 && failures_left > 0 {
        let config = Config { cases: remaining, failure_persistence: None, max_shrink_iters: 3000, ..Config::default() };
        let mut runner = TestRunner::new_with_rng(config, TestRng::from_seed(RngAlgorithm::ChaCha, &mix_seed(a.seed, prop, a.worker, leg)));
        let mut done = 0u32;
        let result = {
            let acc_c = RefCell::new(&mut acc);
            let journal_c = RefCell::new(&mut journal);
            let done_c = RefCell::new(&mut done);
            let known = &known;
            runner.run(&strat, |case| {
                let mut acc = acc_c.borrow_mut();
                journal_c.borrow_mut().write(&serde_json::to_string(&case).unwrap());
                let mut stats = Stats::default();
                let v = verdict(&case, &mut stats);
                if acc.counting {
                    **done_c.borrow_mut() += 1;
                }
                match v {
                    SVerdict::Pass(nt) => {
                        acc.record(&case, hash(&case), size_of(&case), nt, &stats);
                        Ok(())
                    }
                    SVerdict::HarnessBug(m) => {
                        if acc.rep.harness_bugs.len() < 5 {
                            acc.rep.harness_bugs.push(m);
                        }
                        Ok(())
                    }
                    SVerdict::Fail(f) => {
                        let sig = f.signature();
                        if known.iter().any(|k| sig_matches(&k.signature, &sig)) {
                            if acc.counting {
                                *acc.rep.known.entry(sig).or_insert(0) += 1;
                                acc.record(&case, hash(&case), size_of(&case), false, &stats);
                            }
                            return Ok(());
                        }
                        acc.counting = false;
                        Err(TestCaseError::fail(format!("{}: {}", sig, f.detail)))
                    }
                }
            })
        };
        acc.counting = true;
        match result {
            Ok(()) => break,
            Err(TestError::Fail(reason, case)) => {
                let mut st = Stats::default();
                let (sig, detail) = match verdict(&case, &mut st) {
                    SVerdict::Fail(f) => (f.signature(), f.detail),
                    _ => ("unstable".to_string(), reason.to_string()),
                };
                let path = format!("{}/{}-{:016x}.json", a.replay_dir, pid, hash(&case));
                let _ = std::fs::write(&path, serde_json::to_string(&case).unwrap());
                if !acc.rep.violations.iter().any(|v| v.signature == sig) {
                    acc.rep.violations.push(ViolationRec { signature: sig, detail, replay: path, step: 0 });
                }
                failures_left -= 1;
                remaining = remaining.saturating_sub(done.max(1));
                leg += 1;
            }
            Err(TestError::Abort(r)) => {
                acc.rep.harness_bugs.push(format!("proptest aborted: {}", r));
                break;
            }
        }
    }
    acc.finish(&a.work_dir, t0.elapsed().as_secs_f64())
}

pub fn run_c14(a: &WorkerArgs) -> WorkerReport {
    run_special(a, eq_case_strategy(a.thorough), eq_verdict, |c: &EqCase| c.hash64(), |c: &EqCase| c.content.len())
}

pub fn run_c18(a: &WorkerArgs) -> WorkerReport {
    let p = gen::profile(18, a.thorough);
    let mut rep = run_special(a, gen::case_strategy(&p), hasher_verdict, |c: &Case| c.hash64(), |c: &Case| c.ctor.init.len());
    if a.worker % 100 == 0 {
        // item types of other shapes than the 16-byte key of the histories
        if let Some(f) = item_shape_battery() {
            let path = format!("{}/C18-item-shape-battery.json", a.replay_dir);
            let _ = std::fs::write(&path, "{\"item_shape_battery\":true}");
            rep.violations.push(ViolationRec { signature: f.signature(), detail: f.detail, replay: path, step: 0 });
        }
        rep.extra.insert("item_shape_battery_scripts".into(), serde_json::json!(2 * 6 * 5));
    }
    rep
}

pub fn replay_special(prop: u8, text: &str) -> Result<Option<Failure>, String> {
    let mut st = Stats::default();
    let v = match prop {
        #[cfg(feature = "std")]
        12 => {
            let c: StrCase = serde_json::from_str(text).map_err(|e| format!("cannot parse case: {}", e))?;
            str_verdict(&c, &mut st)
        }
        14 => {
            let c: EqCase = serde_json::from_str(text).map_err(|e| format!("cannot parse case: {}", e))?;
            eq_verdict(&c, &mut st)
        }
        18 if text.contains("item_shape_battery") => return Ok(item_shape_battery()),
        18 => {
            let c: Case = serde_json::from_str(text).map_err(|e| format!("cannot parse case: {}", e))?;
            hasher_verdict(&c, &mut st)
        }
        _ => return Err("no special replay".into()),
    };
    match v {
        SVerdict::Pass(_) => Ok(None),
        SVerdict::Fail(f) => Ok(Some(f)),
        SVerdict::HarnessBug(m) => Err(m),
    }
}

// ---------------------------------------------------------------------------------------------
// C15: zero-sized item / priority types (exhaustive over sequences of length <= 2, 4 carriers)

#[cfg(feature = "std")]
pub fn zst_battery() -> Option<Failure> {
    use priority_queue::{DoublePriorityQueue, PriorityQueue};
    use serde::de::value::SeqDeserializer;
    use serde::Deserialize as De;
    #[derive(PartialEq, Eq, Hash, PartialOrd, Ord, Clone, Debug, serde::Serialize, serde::Deserialize)]
    struct U;
    fn judge<Q>(what: &str, n: usize, r: std::thread::Result<Result<(usize, usize), String>>) -> Option<Failure> {
        let _ = std::marker::PhantomData::<Q>;
        let fail = |clause: &'static str, d: String| Some(Failure { group: Group::Serde, clause, step: 0, op: "deser_seq", detail: d, kind: "PQ" });
        match r {
            Err(_) => fail("zst_panic", format!("deserializing {} pairs of zero-sized item/priority as {} panicked: {}", n, what, last_panic_message())),
            Ok(Err(e)) => {
                if n <= 1 {
                    fail("zst_err", format!("deserializing {} pairs as {} failed: {}", n, what, e))
                } else {
                    None
                }
            }
            Ok(Ok((len, cnt))) => {
                if len != cnt || len != n.min(1) {
                    fail("zst_len", format!("deserializing {} pairs as {} gives len {} with {} elements", n, what, len, cnt))
                } else {
                    None
                }
            }
        }
    }
    macro_rules! run {
        ($T:ty, $what:expr, $item:expr, $json_item:expr) => {
            for n in 0..3usize {
                let text = format!("[{}]", vec![$json_item; n].join(","));
                let r = catch_unwind(AssertUnwindSafe(|| serde_json::from_str::<$T>(&text).map(|q| (q.len(), q.iter().count())).map_err(|e| e.to_string())));
                if let Some(f) = judge::<$T>(concat!($what, " from JSON text"), n, r) {
                    return Some(f);
                }
                let r = catch_unwind(AssertUnwindSafe(|| {
                    let v: serde_json::Value = serde_json::from_str(&text).unwrap();
                    serde_json::from_value::<$T>(v).map(|q| (q.len(), q.iter().count())).map_err(|e| e.to_string())
                }));
                if let Some(f) = judge::<$T>(concat!($what, " from serde_json::Value"), n, r) {
                    return Some(f);
                }
                let r = catch_unwind(AssertUnwindSafe(|| {
                    let vals: Vec<serde_json::Value> = (0..n).map(|_| serde_json::from_str($json_item).unwrap()).collect();
                    let d: SeqDeserializer<_, serde_json::Error> = SeqDeserializer::new(vals.into_iter());
                    <$T as De>::deserialize(d).map(|q| (q.len(), q.iter().count())).map_err(|e| e.to_string())
                }));
                if let Some(f) = judge::<$T>(concat!($what, " from a SeqDeserializer"), n, r) {
                    return Some(f);
                }
                let r = catch_unwind(AssertUnwindSafe(|| {
                    let mut dst: $T = Default::default();
                    let mut de = serde_json::Deserializer::from_str(&text);
                    De::deserialize_in_place(&mut de, &mut dst).map(|_| (dst.len(), dst.iter().count())).map_err(|e| e.to_string())
                }));
                if let Some(f) = judge::<$T>(concat!($what, " in place"), n, r) {
                    return Some(f);
                }
                // round trip of a one-element queue
                let r = catch_unwind(AssertUnwindSafe(|| {
                    let mut q: $T = Default::default();
                    q.push($item, $item);
                    let s = serde_json::to_string(&q).map_err(|e| e.to_string())?;
                    serde_json::from_str::<$T>(&s).map(|q2| (q2.len() + (q2 != q) as usize * 7, q2.iter().count())).map_err(|e| e.to_string())
                }));
                if let Some(f) = judge::<$T>(concat!($what, " round trip"), 1, r) {
                    return Some(f);
                }
            }
        };
    }
    run!(PriorityQueue<(), ()>, "PriorityQueue<(),()>", (), "[null,null]");
    run!(DoublePriorityQueue<(), ()>, "DoublePriorityQueue<(),()>", (), "[null,null]");
    run!(PriorityQueue<U, U>, "PriorityQueue<UnitStruct,UnitStruct>", U, "[null,null]");
    run!(DoublePriorityQueue<U, U>, "DoublePriorityQueue<UnitStruct,UnitStruct>", U, "[null,null]");
    None
}

// ---------------------------------------------------------------------------------------------
// C12: `String` items looked up through `&str` (the borrowed form named in the property)

#[derive(Clone, Debug, Serialize, Deserialize, PartialEq, Eq, Hash)]
pub enum SOp {
    Push(u8, i64),
    PushInc(u8, i64),
    PushDec(u8, i64),
    Change(u8, i64),
    ChangeBy(u8, i64),
    Remove(u8),
    Get(u8),
    Pop,
    PopMin,
}
#[derive(Clone, Debug, Serialize, Deserialize, PartialEq, Eq, Hash)]
pub struct StrCase {
    pub double: bool,
    pub ops: Vec<SOp>,
}
const STRS: [&str; 10] = ["", "a", "b", "ab", "ba", "\u{e9}", "a\0", "A", "a ", "the quick brown fox jumps over the lazy dog"];

pub fn str_case_strategy() -> BoxedStrategy<StrCase> {
    let k = 0u8..10;
    let p = -4i64..5;
    let op = prop_oneof![
        4 => (k.clone(), p.clone()).prop_map(|(k, p)| SOp::Push(k, p)),
        2 => (k.clone(), p.clone()).prop_map(|(k, p)| SOp::PushInc(k, p)),
        2 => (k.clone(), p.clone()).prop_map(|(k, p)| SOp::PushDec(k, p)),
        3 => (k.clone(), p.clone()).prop_map(|(k, p)| SOp::Change(k, p)),
        2 => (k.clone(), p.clone()).prop_map(|(k, p)| SOp::ChangeBy(k, p)),
        3 => k.clone().prop_map(SOp::Remove),
        3 => k.clone().prop_map(SOp::Get),
        2 => Just(SOp::Pop),
        1 => Just(SOp::PopMin),
    ];
    (any::<bool>(), vec(op, 0..40)).prop_map(|(double, ops)| StrCase { double, ops }).boxed()
}

macro_rules! str_run {
    ($Q:ty, $c:expr, $pop_max:ident, $pop_min:expr) => {{
        let c: &StrCase = $c;
        let mut q: $Q = <$Q>::new();
        let mut m: std::collections::BTreeMap<String, i64> = Default::default();
        let fail = |clause: &'static str, d: String| Err(Failure { group: Group::Tag, clause, step: 0, op: "get", detail: d, kind: if c.double { "DPQ" } else { "PQ" } });
        let mut borrowed_updates = 0;
        for (i, op) in c.ops.iter().enumerate() {
            match op {
                SOp::Push(k, p) => {
                    let s = STRS[*k as usize];
                    let got = q.push(s.to_string(), *p);
                    let want = m.insert(s.to_string(), *p);
                    if got != want {
                        return fail("str_push_ret", format!("step {}: push({:?},{}) returned {:?}, model {:?}", i, s, p, got, want));
                    }
                }
                SOp::PushInc(k, p) | SOp::PushDec(k, p) => {
                    let inc = matches!(op, SOp::PushInc(..));
                    let s = STRS[*k as usize];
                    let got = if inc { q.push_increase(s.to_string(), *p) } else { q.push_decrease(s.to_string(), *p) };
                    let want = match m.get(s).copied() {
                        None => {
                            m.insert(s.to_string(), *p);
                            None
                        }
                        Some(o) => {
                            if (inc && *p > o) || (!inc && *p < o) {
                                m.insert(s.to_string(), *p);
                                Some(o)
                            } else {
                                Some(*p)
                            }
                        }
                    };
                    if got != want {
                        return fail("str_push_dir_ret", format!("step {}: push_increase/decrease({:?},{}) returned {:?}, model {:?}", i, s, p, got, want));
                    }
                }
                SOp::Change(k, p) => {
                    let s: &str = STRS[*k as usize];
                    let got = q.change_priority(s, *p);
                    let want = m.get_mut(s).map(|x| std::mem::replace(x, *p));
                    if got != want {
                        return fail("str_change_ret", format!("step {}: change_priority(&str {:?},{}) returned {:?}, model {:?}", i, s, p, got, want));
                    }
                    if want.is_some() {
                        borrowed_updates += 1;
                    }
                }
                SOp::ChangeBy(k, p) => {
                    let s: &str = STRS[*k as usize];
                    let got = q.change_priority_by(s, |x| *x = *p);
                    let want = m.get_mut(s).map(|x| *x = *p).is_some();
                    if got != want {
                        return fail("str_change_by_ret", format!("step {}: change_priority_by(&str {:?}) returned {}, model {}", i, s, got, want));
                    }
                }
                SOp::Remove(k) => {
                    let s: &str = STRS[*k as usize];
                    let got = q.remove(s);
                    let want = m.remove(s).map(|p| (s.to_string(), p));
                    if got != want {
                        return fail("str_remove_ret", format!("step {}: remove(&str {:?}) returned {:?}, model {:?}", i, s, got, want));
                    }
                }
                SOp::Get(k) => {
                    let s: &str = STRS[*k as usize];
                    let owned = s.to_string();
                    let a = q.get(s).map(|(k, p)| (k as *const String as usize, k.clone(), *p));
                    let b = q.get(&owned).map(|(k, p)| (k as *const String as usize, k.clone(), *p));
                    let want = m.get(s).map(|p| (s.to_string(), *p));
                    if a != b || a.clone().map(|x| (x.1, x.2)) != want || q.get_priority(s).copied() != want.as_ref().map(|w| w.1) {
                        return fail("str_get", format!("step {}: get(&str {:?}) = {:?}, get(&String) = {:?}, model {:?}", i, s, a, b, want));
                    }
                    if let Some((k, _)) = q.get_mut(s) {
                        if k.as_str() != s {
                            return fail("str_get_mut", format!("step {}: get_mut(&str {:?}) addressed {:?}", i, s, k));
                        }
                    }
                }
                SOp::Pop | SOp::PopMin => {
                    let min = matches!(op, SOp::PopMin);
                    let got: Option<(String, i64)> = if min { $pop_min(&mut q) } else { q.$pop_max() };
                    if min && !c.double {
                        continue;
                    }
                    match got {
                        None => {
                            if !m.is_empty() {
                                return fail("str_pop_none", format!("step {}: pop returned None with {} stored", i, m.len()));
                            }
                        }
                        Some((s, p)) => {
                            let ext = if min { m.values().min().copied() } else { m.values().max().copied() };
                            if m.get(&s) != Some(&p) || ext != Some(p) {
                                return fail("str_pop", format!("step {}: pop returned ({:?},{}) model {:?}", i, s, p, m));
                            }
                            m.remove(&s);
                        }
                    }
                }
            }
            if q.len() != m.len() {
                return fail("str_len", format!("step {}: len {} model {}", i, q.len(), m.len()));
            }
            let mut all: Vec<(String, i64)> = q.iter().map(|(k, p)| (k.clone(), *p)).collect();
            all.sort();
            if all != m.iter().map(|(k, p)| (k.clone(), *p)).collect::<Vec<_>>() {
                return fail("str_content", format!("step {}: content {:?} model {:?}", i, all, m));
            }
        }
        Ok(borrowed_updates >= 1 && c.ops.len() >= 5)
    }};
}

#[cfg(feature = "std")]
pub fn str_verdict(c: &StrCase, _stats: &mut Stats) -> SVerdict {
    use priority_queue::{DoublePriorityQueue, PriorityQueue};
    let kind = if c.double { Kind::DPQ } else { Kind::PQ };
    guarded(kind, || -> Result<bool, Failure> {
        if c.double {
            str_run!(DoublePriorityQueue<String, i64>, c, pop_max, |q: &mut DoublePriorityQueue<String, i64>| q.pop_min())
        } else {
            str_run!(PriorityQueue<String, i64>, c, pop, |_q: &mut PriorityQueue<String, i64>| None)
        }
    })
}

#[cfg(feature = "std")]
pub fn run_c12_strings(a: &WorkerArgs) -> WorkerReport {
    let mut b = a.clone();
    b.cases = (a.cases / 4).max(1);
    b.worker = a.worker + 50;
    run_special(&b, str_case_strategy(), str_verdict, |c: &StrCase| {
        use std::hash::{Hash, Hasher};
        let mut h = std::collections::hash_map::DefaultHasher::new();
        c.hash(&mut h);
        h.finish()
    }, |c: &StrCase| c.ops.len())
}

// ---------------------------------------------------------------------------------------------
// C06: sorted consumption over zero-sized item / priority types (0, 1 elements; every form)

#[cfg(feature = "std")]
pub fn zst_sorted_battery() -> Option<Failure> {
    use priority_queue::{DoublePriorityQueue, PriorityQueue};
    #[derive(PartialEq, Eq, Hash, PartialOrd, Ord, Clone, Debug)]
    struct U;
    let fail = |d: String| Some(Failure { group: Group::Sorted, clause: "zst_sorted", step: 0, op: "sorted", detail: d, kind: "DPQ" });
    macro_rules! go {
        ($what:expr, $n:expr, $body:expr) => {{
            match catch_unwind(AssertUnwindSafe(|| $body)) {
                Err(_) => return fail(format!("{} on a queue of {} zero-sized elements panicked: {}", $what, $n, last_panic_message())),
                Ok(len) => {
                    if len != $n {
                        return fail(format!("{} on a queue of {} zero-sized elements yielded {} elements", $what, $n, len));
                    }
                }
            }
        }};
    }
    for n in 0..2usize {
        go!("PriorityQueue::into_sorted_vec", n, {
            let mut q: PriorityQueue<(), ()> = PriorityQueue::new();
            for _ in 0..n {
                q.push((), ());
            }
            q.into_sorted_vec().len()
        });
        go!("PriorityQueue::into_sorted_iter", n, {
            let mut q: PriorityQueue<U, U> = PriorityQueue::new();
            for _ in 0..n {
                q.push(U, U);
            }
            q.into_sorted_iter().count()
        });
        go!("DoublePriorityQueue::into_ascending_sorted_vec", n, {
            let mut q: DoublePriorityQueue<(), ()> = DoublePriorityQueue::new();
            for _ in 0..n {
                q.push((), ());
            }
            q.into_ascending_sorted_vec().len()
        });
        go!("DoublePriorityQueue::into_descending_sorted_vec", n, {
            let mut q: DoublePriorityQueue<U, U> = DoublePriorityQueue::new();
            for _ in 0..n {
                q.push(U, U);
            }
            q.into_descending_sorted_vec().len()
        });
        go!("DoublePriorityQueue::into_sorted_iter (both ends)", n, {
            let mut q: DoublePriorityQueue<(), U> = DoublePriorityQueue::new();
            for _ in 0..n {
                q.push((), U);
            }
            let mut it = q.into_sorted_iter();
            let l = it.len();
            let a = it.next_back().is_some() as usize;
            let b = it.next().is_some() as usize;
            if l != a + b {
                usize::MAX
            } else {
                a + b
            }
        });
        go!("DoublePriorityQueue<u8,()>::into_descending_sorted_vec", n, {
            let mut q: DoublePriorityQueue<u8, ()> = DoublePriorityQueue::new();
            for i in 0..n {
                q.push(i as u8, ());
            }
            q.into_descending_sorted_vec().len()
        });
    }
    None
}

// ---------------------------------------------------------------------------------------------
// C16 (clear / drain) and C04 (double drop): drop accounting for every combination of "the item type has
// drop glue" x "the priority type has drop glue". The history checks only ever use two types that both
// have it; code that asks `mem::needs_drop` (or that is specialised on Copy types) behaves differently.

pub fn drop_glue_battery() -> Vec<Failure> {
    use priority_queue::{DoublePriorityQueue, PriorityQueue};
    let mut out: Vec<Failure> = Vec::new();
    fn judge(out: &mut Vec<Failure>, kind: &'static str, op: &'static str, types: &str, created_live: usize) {
        let (live, dd) = tracking_report();
        if dd > 0 {
            out.push(Failure { group: Group::Panic, clause: "double_drop", step: 0, op, detail: format!("{} on {}<{}>: {} instrumented values were dropped twice", op, kind, types, dd), kind });
        }
        if live != created_live {
            out.push(Failure {
                group: Group::Content,
                clause: "not_dropped",
                step: 0,
                op,
                detail: format!("{} on {}<{}>: {} instrumented values are still alive after the queue and everything it returned were dropped (expected {})", op, kind, types, live, created_live),
                kind,
            });
        }
    }
    macro_rules! scripts {
        ($Q:ident, $kind:expr, $I:ty, $P:ty, $mi:expr, $mp:expr, $types:expr, $popmax:ident) => {{
            let mi = $mi;
            let mp = $mp;
            let fill = |n: u32| -> $Q<$I, $P, HB> {
                let mut q: $Q<$I, $P, HB> = $Q::with_hasher(HB::of(HasherKind::Xx));
                for i in 0..n {
                    q.push(mi(i), mp((i as i64 * 7) % 11));
                }
                q
            };
            for n in [1u32, 2, 9, 40] {
                let steps: Vec<(&'static str, Box<dyn Fn()>)> = vec![
                    ("clear", Box::new(|| { let mut q = fill(n); q.clear(); q.push(mi(1), mp(1)); q.clear(); })),
                    ("drain", Box::new(|| { let mut q = fill(n); let c = q.drain().count(); assert_eq!(c, n as usize); q.push(mi(1), mp(1)); })),
                    ("drain", Box::new(|| { let mut q = fill(n); { let mut d = q.drain(); let _a = d.next(); let _b = d.next_back(); } q.push(mi(1), mp(1)); })),
                    ("drain", Box::new(|| { let mut q = fill(n); drop(q.drain()); })),
                    ("drop", Box::new(|| { let _q = fill(n); })),
                    ("pop", Box::new(|| { let mut q = fill(n); while q.$popmax().is_some() {} })),
                    ("remove", Box::new(|| { let mut q = fill(n); for i in (0..n).step_by(2) { let _ = q.remove(&mi(i)); } })),
                    ("retain", Box::new(|| { let mut q = fill(n); let mut k = 0; q.retain(|_, _| { k += 1; k % 3 != 0 }); })),
                    ("into_iter", Box::new(|| { let q = fill(n); let mut it = q.into_iter(); let _a = it.next(); let _b = it.next_back(); })),
                    ("sorted_iter", Box::new(|| { let q = fill(n); let mut it = q.into_sorted_iter(); let _a = it.next(); })),
                    ("push", Box::new(|| { let mut q = fill(n); for i in 0..n { let _old = q.push(mi(i), mp(3)); } })),
                    ("change_priority", Box::new(|| { let mut q = fill(n); for i in 0..n { let _old = q.change_priority(&mi(i), mp(-(i as i64))); } })),
                    ("extend", Box::new(|| { let mut q = fill(n); q.extend((0..2 * n + 3).map(|i| (mi(i), mp(i as i64 % 5)))); })),
                    ("append", Box::new(|| { let mut q = fill(n); let mut o = fill(n + 3); q.append(&mut o); })),
                    ("clone", Box::new(|| { let q = fill(n); let mut c = q.clone(); c.clear(); let mut d = fill(3); d.clone_from(&q); })),
                    ("from_vec", Box::new(|| { let v: Vec<($I, $P)> = (0..n).chain(0..n).map(|i| (mi(i), mp(i as i64))).collect(); let _q: $Q<$I, $P, HB> = $Q::from(v); })),
                    ("from_iter", Box::new(|| { let _q: $Q<$I, $P, HB> = (0..n).chain(0..n).map(|i| (mi(i), mp(i as i64))).collect(); })),
                    ("into_vec", Box::new(|| { let q = fill(n); let _v = q.into_vec(); })),
                    ("shrink_to_fit", Box::new(|| { let mut q = fill(n); let _ = q.$popmax(); q.shrink_to_fit(); q.reserve(100); })),
                ];
                for (op, f) in steps.iter() {
                    set_tracking(true);
                    let r = catch_unwind(AssertUnwindSafe(|| f()));
                    if r.is_err() {
                        out.push(Failure { group: Group::Panic, clause: "panic", step: 0, op, detail: format!("{} on {}<{}> with {} elements panicked: {}", op, $kind, $types, n, last_panic_message()), kind: $kind });
                    } else {
                        judge(&mut out, $kind, op, $types, 0);
                    }
                    set_tracking(false);
                }
            }
        }};
    }
    set_default_hb(HasherKind::Xx);
    scripts!(PriorityQueue, "PQ", u32, Prio, |i: u32| i, |p: i64| Prio::new(p), "u32, Prio", pop);
    scripts!(PriorityQueue, "PQ", Key, i64, |i: u32| Key::new(i, 0), |p: i64| p, "Key, i64", pop);
    scripts!(PriorityQueue, "PQ", Key, Prio, |i: u32| Key::new(i, 0), |p: i64| Prio::new(p), "Key, Prio", pop);
    scripts!(DoublePriorityQueue, "DPQ", u32, Prio, |i: u32| i, |p: i64| Prio::new(p), "u32, Prio", pop_max);
    scripts!(DoublePriorityQueue, "DPQ", Key, i64, |i: u32| Key::new(i, 0), |p: i64| p, "Key, i64", pop_min);
    scripts!(DoublePriorityQueue, "DPQ", Key, Prio, |i: u32| Key::new(i, 0), |p: i64| Prio::new(p), "Key, Prio", pop_max);
    out
}

// ---------------------------------------------------------------------------------------------
// C18: the same scripted history under every hasher for item types of different shapes (1 byte, 8 bytes,
// a pair, a heap-allocated string, a boxed value, an 80-byte array). The history checks use one item type
// of 16 bytes; code that is specialised on `size_of::<I>()` or on the representation of the key behaves
// differently. Priorities are pairwise distinct, so the traces must be identical, not only up to ties.

pub trait Shape: std::hash::Hash + Eq + Clone {
    const NAME: &'static str;
    fn mk(id: u32) -> Self;
    fn id(&self) -> u32;
}
impl Shape for u8 {
    const NAME: &'static str = "u8";
    fn mk(id: u32) -> u8 { id as u8 }
    fn id(&self) -> u32 { *self as u32 }
}
impl Shape for u64 {
    const NAME: &'static str = "u64";
    fn mk(id: u32) -> u64 { (id as u64) << 32 | 0xABCD }
    fn id(&self) -> u32 { (*self >> 32) as u32 }
}
impl Shape for (u16, u16) {
    const NAME: &'static str = "(u16, u16)";
    fn mk(id: u32) -> (u16, u16) { ((id % 7) as u16, id as u16) }
    fn id(&self) -> u32 { self.1 as u32 }
}
impl Shape for String {
    const NAME: &'static str = "String";
    fn mk(id: u32) -> String { format!("item-{:03}", id) }
    fn id(&self) -> u32 { self[5..].parse().unwrap() }
}
impl Shape for Box<u32> {
    const NAME: &'static str = "Box<u32>";
    fn mk(id: u32) -> Box<u32> { Box::new(id) }
    fn id(&self) -> u32 { **self }
}
impl Shape for [u64; 10] {
    const NAME: &'static str = "[u64; 10]";
    fn mk(id: u32) -> [u64; 10] { let mut a = [7u64; 10]; a[3] = id as u64; a }
    fn id(&self) -> u32 { self[3] as u32 }
}

pub fn item_shape_battery() -> Option<Failure> {
    use priority_queue::{DoublePriorityQueue, PriorityQueue};
    fn pr(id: u32) -> i64 {
        // pairwise distinct for ids below 199
        (id as i64 * 37) % 199
    }
    macro_rules! script {
        ($Q:ident, $I:ty, $hk:expr, $double:expr) => {{
            let mut tr: Vec<(u32, i64)> = Vec::new();
            let mut q: $Q<$I, i64, HB> = $Q::with_hasher(HB::of($hk));
            for id in 0..8u32 {
                tr.push((900, q.push(<$I as Shape>::mk(id), pr(id)).unwrap_or(-1)));
            }
            // a batch big enough for the rebuild strategy, new items first, then five clashes
            let batch: Vec<($I, i64)> = (8..32u32).chain(2..7).map(|id| (<$I as Shape>::mk(id), pr(id) + if id < 8 { 1000 } else { 0 })).collect();
            q.extend(batch);
            tr.push((901, q.len() as i64));
            for id in 0..36u32 {
                tr.push((id, q.get_priority(&<$I as Shape>::mk(id)).copied().unwrap_or(-1)));
            }
            for id in (0..36u32).step_by(5) {
                tr.push((902, q.change_priority(&<$I as Shape>::mk(id), pr(id) + 2000).unwrap_or(-1)));
                tr.push((903, q.push_increase(<$I as Shape>::mk(id + 1), 1).unwrap_or(-1)));
            }
            for id in (1..36u32).step_by(4) {
                tr.push((904, q.remove(&<$I as Shape>::mk(id)).map_or(-1, |x| x.1)));
            }
            let mut other: $Q<$I, i64, HB> = $Q::with_hasher(HB::of($hk));
            for id in 28..44u32 {
                other.push(<$I as Shape>::mk(id), pr(id) + 3000);
            }
            q.append(&mut other);
            tr.push((905, q.len() as i64));
            tr.push((906, other.len() as i64));
            let c = q.clone();
            tr.push((907, (c == q) as i64));
            let mut ids: Vec<u32> = q.iter().map(|(i, _)| i.id()).collect();
            ids.sort_unstable();
            tr.extend(ids.iter().map(|i| (908, *i as i64)));
            let mut k = 0;
            loop {
                let r = if $double && k % 2 == 1 { script!(@popmin q) } else { script!(@popmax q) };
                k += 1;
                match r {
                    Some((i, p)) => tr.push((i.id(), p)),
                    None => break,
                }
            }
            tr
        }};
        (@popmax $q:ident) => { $q.pop_max_compat() };
        (@popmin $q:ident) => { $q.pop_min_compat() };
    }
    trait PopCompat<I> {
        fn pop_max_compat(&mut self) -> Option<(I, i64)>;
        fn pop_min_compat(&mut self) -> Option<(I, i64)>;
    }
    impl<I: std::hash::Hash + Eq> PopCompat<I> for PriorityQueue<I, i64, HB> {
        fn pop_max_compat(&mut self) -> Option<(I, i64)> { self.pop() }
        fn pop_min_compat(&mut self) -> Option<(I, i64)> { self.pop() }
    }
    impl<I: std::hash::Hash + Eq> PopCompat<I> for DoublePriorityQueue<I, i64, HB> {
        fn pop_max_compat(&mut self) -> Option<(I, i64)> { self.pop_max() }
        fn pop_min_compat(&mut self) -> Option<(I, i64)> { self.pop_min() }
    }
    let hashers = [HasherKind::Fixed, HasherKind::Xx, HasherKind::Colliding, HasherKind::Coarse, HasherKind::OneShot];
    macro_rules! shapes {
        ($Q:ident, $double:expr, $kind:expr, $($I:ty),*) => {$(
            {
                let mut base: Option<Vec<(u32, i64)>> = None;
                for hk in hashers {
                    let r = catch_unwind(AssertUnwindSafe(|| script!($Q, $I, hk, $double)));
                    let fail = |clause: &'static str, detail: String| Some(Failure { group: Group::Hasher, clause, step: 0, op: "history", detail, kind: $kind });
                    match r {
                        Err(_) => return fail("item_shape_panic", format!("the scripted history on {}<{}, i64> panicked under hasher {:?}: {}", $kind, <$I as Shape>::NAME, hk, last_panic_message())),
                        Ok(t) => match &base {
                            None => base = Some(t),
                            Some(b) => {
                                if *b != t {
                                    let at = b.iter().zip(t.iter()).position(|(x, y)| x != y).unwrap_or(b.len().min(t.len()));
                                    return fail(
                                        "item_shape_trace_differs",
                                        format!("the scripted history on {}<{}, i64> returns {:?} as its {}th value under hasher {:?} and {:?} under the fixed hasher (all priorities are distinct)", $kind, <$I as Shape>::NAME, t.get(at), at, hk, b.get(at)),
                                    );
                                }
                            }
                        },
                    }
                }
            }
        )*};
    }
    shapes!(PriorityQueue, false, "PQ", u8, u64, (u16, u16), String, Box<u32>, [u64; 10]);
    shapes!(DoublePriorityQueue, true, "DPQ", u8, u64, (u16, u16), String, Box<u32>, [u64; 10]);
    None
}
