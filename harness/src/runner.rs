//! Case execution with panic capture, per-property proptest loops, known findings, evidence.

use std::cell::RefCell;
use std::collections::{BTreeMap, BTreeSet};
use std::io::{Seek, SeekFrom, Write};
use std::panic::{catch_unwind, AssertUnwindSafe};

use proptest::strategy::{Strategy, ValueTree};
use proptest::test_runner::{Config, RngAlgorithm, TestCaseError, TestError, TestRng, TestRunner};
use serde::{Deserialize, Serialize};

use crate::case::*;
use crate::gen;
use crate::interp::*;
use crate::oracle::Group;
use crate::queue::*;
use crate::types::*;

thread_local! {
    static LAST_PANIC: RefCell<(String, String)> = RefCell::new((String::new(), String::new()));
}

pub fn install_panic_hook() {
    std::panic::set_hook(Box::new(|info| {
        let msg = if let Some(s) = info.payload().downcast_ref::<&str>() {
            s.to_string()
        } else if let Some(s) = info.payload().downcast_ref::<String>() {
            s.clone()
        } else {
            "<non-string panic payload>".to_string()
        };
        let loc = info.location().map(|l| format!("{}:{}", l.file(), l.line())).unwrap_or_default();
        if msg.starts_with("unsafe precondition") || msg.contains("cannot unwind") || msg.contains("during cleanup") || std::env::var_os("PQV_DEBUG_PANICS").is_some() {
            // a non-unwinding panic (std's unsafe-precondition checks) aborts the process: say why
            eprintln!("{} @ {}", msg, loc);
            if std::env::var_os("PQV_DEBUG_PANICS").map_or(false, |v| v == "bt") {
                eprintln!("{}", std::backtrace::Backtrace::force_capture());
            }
        }
        LAST_PANIC.with(|p| *p.borrow_mut() = (msg, loc));
    }));
}
pub fn last_panic() -> (String, String) {
    LAST_PANIC.with(|p| p.borrow().clone())
}
pub fn last_panic_message() -> String {
    let (m, l) = last_panic();
    format!("{} @ {}", m, l)
}
/// a panic raised by the harness's own code (relative path = this crate) is a harness bug, never
/// a verdict about the crate under test
pub fn is_harness_location(loc: &str) -> bool {
    loc.starts_with("src/") || loc.contains("/verif/harness/src/") || loc.contains("/verif/fuzz/")
}

#[derive(Debug)]
pub enum Verdict {
    Pass,
    Fail(Failure),
    Foreign(Failure),
    HarnessBug(String),
}

pub struct CaseRun {
    pub verdict: Verdict,
    pub stats: Stats,
    pub trace: Option<Vec<TraceEv>>,
}

pub fn cfg_for(prop: u8, case: &Case) -> RunCfg {
    RunCfg {
        prop,
        hint_meta: prop == 7,
        tables: true,
        universe: case.universe.max(1),
        raw: false,
        strict_trace: false,
    }
}

pub fn owns_panic(prop: u8, double: bool, op: &'static str, after_special: bool) -> bool {
    // mirror of Interp::owns for Group::Panic
    let pq = !double;
    match prop {
        0 | 4 => true,
        1 => pq,
        2 => !pq,
        3 => true,
        6 => matches!(op, "sorted" | "sorted_iter" | "adaptor_sorted"),
        7 => matches!(op, "extend" | "append" | "from_vec" | "from_iter" | "convert" | "ctor"),
        8 => matches!(op, "retain" | "retain_mut" | "iter_mut" | "iter_mut_late_write" | "pop_if" | "adaptor_iter_mut"),
        9 => matches!(op, "iter_mut" | "iter_mut_late_write" | "adaptor_iter_mut"),
        11 => matches!(op, "push_increase" | "push_decrease"),
        13 => matches!(op, "iter" | "ref_into_iter" | "into_iter" | "drain" | "sorted_iter" | "adaptor" | "adaptor_sorted"),
        14 => matches!(op, "eq" | "clone"),
        15 => matches!(op, "serde" | "deser_seq"),
        16 => matches!(op, "clear" | "drain") || after_special,
        17 => matches!(op, "reserve" | "shrink_to_fit") || after_special,
        _ => false,
    }
}

fn dispatch(case: &Case, cfg: &RunCfg, stats: &mut Stats, want_trace: bool) -> (Outcome, Option<Vec<TraceEv>>) {
    match (case.kind, case.hasher) {
        #[cfg(feature = "std")]
        (Kind::PQ, HasherKind::Random) => run_case::<PqRs>(case, cfg, stats, want_trace),
        #[cfg(feature = "std")]
        (Kind::DPQ, HasherKind::Random) => run_case::<DpqRs>(case, cfg, stats, want_trace),
        (Kind::PQ, _) => run_case::<PqHb>(case, cfg, stats, want_trace),
        (Kind::DPQ, _) => run_case::<DpqHb>(case, cfg, stats, want_trace),
    }
}

pub fn run_one(case: &Case, cfg: &RunCfg, want_trace: bool) -> CaseRun {
    let mut stats = Stats::default();
    disarm_fuse();
    AFTER_SPECIAL.with(|a| a.set(false));
    let r = catch_unwind(AssertUnwindSafe(|| dispatch(case, cfg, &mut stats, want_trace)));
    match r {
        Ok((o, tr)) => CaseRun {
            verdict: match o {
                Outcome::Pass => Verdict::Pass,
                Outcome::Fail(f) => Verdict::Fail(f),
                Outcome::Foreign(f) => Verdict::Foreign(f),
            },
            stats,
            trace: tr,
        },
        Err(_) => {
            let (msg, loc) = last_panic();
            let (step, op) = CUR_STEP.with(|c| c.get());
            if is_harness_location(&loc) && msg != FUSE_MSG {
                return CaseRun { verdict: Verdict::HarnessBug(format!("{} @ {} (step {} {})", msg, loc, step, op)), stats, trace: None };
            }
            let f = Failure {
                group: Group::Panic,
                clause: "panic",
                step,
                op,
                detail: format!("panicked: {} @ {}", msg, loc),
                kind: if case.kind == Kind::PQ { "PQ" } else { "DPQ" },
            };
            let after = AFTER_SPECIAL.with(|a| a.get());
            let verdict = if owns_panic(cfg.prop, case.kind == Kind::DPQ, op, after) { Verdict::Fail(f) } else { Verdict::Foreign(f) };
            CaseRun { verdict, stats, trace: None }
        }
    }
}

// ---------------------------------------------------------------------------------------------
// known findings

#[derive(Clone, Debug, Serialize, Deserialize)]
pub struct KnownFinding {
    pub status: String,
    pub property: String,
    pub signature: String,
    pub what: String,
    #[serde(default)]
    pub commit: Option<String>,
    #[serde(default)]
    pub replay: Option<String>,
}

/// `*` in a listed signature matches any run of characters
pub fn sig_matches(pattern: &str, sig: &str) -> bool {
    let parts: Vec<&str> = pattern.split('*').collect();
    if parts.len() == 1 {
        return pattern == sig;
    }
    let mut rest = sig;
    for (i, part) in parts.iter().enumerate() {
        if part.is_empty() {
            continue;
        }
        match rest.find(part) {
            Some(pos) => {
                if i == 0 && pos != 0 {
                    return false;
                }
                rest = &rest[pos + part.len()..];
            }
            None => return false,
        }
    }
    parts.last().map_or(true, |l| l.is_empty() || sig.ends_with(l))
}

pub fn load_known(path: &str, prop: &str) -> Vec<KnownFinding> {
    let Ok(s) = std::fs::read_to_string(path) else { return vec![] };
    s.lines()
        .filter(|l| !l.trim().is_empty() && !l.trim_start().starts_with('#'))
        .filter_map(|l| serde_json::from_str::<KnownFinding>(l).ok())
        .filter(|k| k.status == "known" && k.property == prop)
        .collect()
}

// ---------------------------------------------------------------------------------------------
// non-triviality rules

pub fn rule_text(prop: u8) -> &'static str {
    match prop {
        1 => "history on PriorityQueue from gen::case_strategy(profile 1); non-trivial = size>=4 reached and an order-disturbing step (priority change of a present item, removal leaving >=2, retain that drops, rewrite through iter_mut/pop_if/retain_mut, bulk rebuild) was followed by a checked extraction on >=3 elements; distinct = hash of the whole case",
        2 => "history on DoublePriorityQueue (profile 2); non-trivial = size>=4 reached, an order-disturbing step followed by a checked extraction, and extractions from both ends were checked (pop_min and pop_max, or a three-way drain check); distinct = hash of the case",
        3 => "history on either kind over a small universe; non-trivial = a removal that renames a slot, a re-insertion of a removed id, an op naming an absent id, and size>=3; distinct = hash of the case",
        4 => "history over the whole alphabet incl. capacity ops, partial drains, leaked iter_mut; non-trivial = >=10 steps, >=3 distinct shrinking op kinds, size>=2, and a rare op (leaked guard, partial/leaked drain, conversion, append, extend-rebuild); distinct = hash of the case",
        6 => "state by history + sorted consumption programs; non-trivial = a sorted consumption on >=3 elements with ties (DPQ: with a direction switch before exhaustion); distinct = hash of the case",
        7 => "receiver state + bulk op (extend/append/from_vec/from_iter/convert) with generated duplication and legal size hints, each extend/from_iter repeated under 10 hint modes; non-trivial = duplicate id or clash with n+k>=8, the metamorphic relation ran, and both strategies were predicted among the modes for some extend; distinct = hash of the case",
        8 => "state + retain/retain_mut/iter_mut/pop_if with generated masks and rewrites; non-trivial = size>=3, the call changed something (dropped and kept, or rewrote a priority), followed by a checked extraction; distinct = hash of the case",
        9 => "histories dominated by iter_mut / (&mut q).into_iter() call programs over {next,next_back,len+size_hint probe} with every yielded reference kept alive and written through, and by 42 std adaptor / iterator-method compositions (rev, take, skip, step_by, nth, nth_back, rfold, find, ...) applied to the real IterMut type and compared with the same composition over the plain sequence; plus the complete enumeration described under exhaustive_subspace; non-trivial = n>=2 and >=2 elements yielded in one program (or an adaptor run on n>=2); distinct = hash of the case",
        11 => "state + push_increase/push_decrease with offered priority lower/equal/higher; non-trivial = item present, size>=3, and the equal class or a move occurred; distinct = hash of the case",
        12 => "history over items with payload; non-trivial = a priority update of a present item issued with a different payload, a payload write, and a slot-renaming removal; distinct = hash of the case",
        13 => "call programs over {next,next_back,len+size_hint probe} on iter, &q, into_iter, drain and the sorted iterators, and 42 std adaptor / iterator-method compositions applied to the real iterator types and compared (sequence, len, size_hint) with the same composition over the plain sequence; plus the complete enumeration described under exhaustive_subspace; non-trivial = n>=2 and a probe after an advance, or an adaptor whose length differs from n; distinct = hash of the case",
        15 => "state + serde round trip through 3 carriers as same/other kind; non-trivial = a round trip on >=3 elements with ties, or a deserialized pair sequence that repeats an item; distinct = hash of the case",
        16 => "state + clear/drain (consumption program, drop or forget) + continuation; non-trivial = size>=2 before, partial consumption or leak or clear, then >=3 further ops including an extraction; distinct = hash of the case",
        17 => "history with capacity ops interleaved; non-trivial = >=2 capacity ops on a non-empty queue and a later checked extraction; distinct = hash of the case",
        5 => "(kind, n = 2^e + jitter with e up to 16 quick / 20 thorough, one of 6 priority patterns, an optional bulk operation, then up to 40 single-element operations with generated target class and new-priority class on an evolving queue); every public call is bracketed by a thread-local Ord::cmp counter and compared with fixed bounds: 0 for peek/peek_min/len/lookups, <=1 for peek_max, <=16*(floor(log2 n)+1)+32 for single-element operations, <=4*(n+k)+64 (PriorityQueue) / 6*(n+k)+64 (DoublePriorityQueue) for bulk rebuilds; non-trivial = n>=1024 (at small n the logarithmic bound does not separate from linear) or a zero-comparison probe on n>=2; distinct = hash of the case",
        10 => "history in which generated operations run with a fuse armed: the k-th Ord::cmp / Hash / Eq / Clone / predicate-or-setter / feeding-iterator callback inside the operation panics (k scaled into the number of callbacks counted on a clone, thorough tier sweeps every k), the panic is caught, and generated continuations plus a deterministic battery (pop all, remove all, pushes and priority changes, retain/iter_mut/drain, conversions) run on the survivor; iter_mut and drain guards are also leaked with mem::forget; oracle = the sanitizing build must not abort and no instrumented item/priority instance may be dropped twice or leaked; non-trivial = a fuse fired inside an operation on >=3 elements with >=3 continuation operations, or a guard leaked on a non-empty queue; distinct = hash of the case",
        14 => "a content set S and two independent histories (different constructors, hashers, capacities) equalised to S, a near-miss variant (one priority / one item removed / one added / two priorities exchanged), a From<Vec>-built third queue, then a clone driven in lock-step and one-sidedly; non-trivial = |S|>=3 and the two routes produced different raw arrangements, or the lock-step continuation had >=5 mutating ops; distinct = hash of the case",
        18 => "a history executed under 6 BuildHasher configurations (RandomState via new(), fixed SipHash, RandomState via with_hasher, XxHash64, all-colliding, four-valued), each against the model, traces compared pairwise up to ties; non-trivial = >=10 ops incl. a removal, a priority change and a checked extraction on size>=4, all configurations incl. the colliding one run; distinct = hash of the case",
        _ => "see DESIGN.md",
    }
}

pub fn nontrivial(prop: u8, s: &Stats) -> bool {
    let n = |e: &str| s.n(e);
    match prop {
        1 => n("size_ge4") > 0 && n("extract_after_disturb") > 0,
        2 => n("size_ge4") > 0 && n("extract_after_disturb") > 0 && ((n("pop_min") > 0 && n("pop_max") > 0) || n("drain_check") > 0),
        3 => n("remove_renames_slot") > 0 && n("reinsert_removed") > 0 && n("op_on_absent") > 0 && s.max_size >= 3,
        4 => {
            let shrinkers = ["op.remove", "op.pop", "op.pop_if", "op.retain", "op.retain_mut", "op.drain", "op.clear"].iter().filter(|e| n(e) > 0).count();
            s.steps >= 10
                && shrinkers >= 3
                && s.max_size >= 2
                && (n("iter_mut_leaked") + n("drain_partial_or_leaked") + n("convert_round") + n("op.append") + n("extend_pred_rebuild")) > 0
        }
        6 => n("sorted_with_ties") > 0,
        7 => n("bulk_dup_or_clash") > 0,
        8 => {
            s.max_size >= 3
                && (n("retain_drop_and_keep") + n("retain_mut_rewrite") + n("iter_mut_rewrite") + n("pop_if_true") + n("pop_if_false_rewrite")) > 0
                && n("extract_checked") > 0
        }
        9 => n("iter_mut_two_yielded") > 0 || (n("adaptor_iter_mut_run") > 0 && s.max_size >= 2),
        11 => n("pushdir_present") > 0 && s.max_size >= 3,
        12 => n("update_with_other_tag") > 0 && n("tag_write") > 0 && n("remove_renames_slot") > 0,
        13 => n("iter_probe_after_advance") + n("adaptor_answer_differs_from_n") > 0,
        15 => n("serde_roundtrip_ties") + n("deser_seq_with_repeats") > 0,
        16 => (n("drain_partial_or_leaked") + n("clear_nonempty")) > 0 && n("after_special_ops") >= 3 && n("after_special_extract") > 0,
        17 => n("cap_op_nonempty") >= 2 && n("extract_checked") > 0,
        _ => s.steps > 0,
    }
}

// ---------------------------------------------------------------------------------------------
// worker report

#[derive(Clone, Debug, Serialize, Deserialize, Default)]
pub struct ViolationRec {
    pub signature: String,
    pub detail: String,
    pub replay: String,
    pub step: i32,
}

#[derive(Clone, Debug, Serialize, Deserialize, Default)]
pub struct WorkerReport {
    pub prop: u8,
    pub worker: u32,
    pub seed: u64,
    pub evaluations: u64,
    pub nontrivial: u64,
    pub hashes_file: String,
    pub hist: BTreeMap<String, u64>,
    pub samples: Vec<serde_json::Value>,
    pub violations: Vec<ViolationRec>,
    pub known: BTreeMap<String, u64>,
    pub foreign: BTreeMap<String, u64>,
    pub harness_bugs: Vec<String>,
    pub extra: BTreeMap<String, serde_json::Value>,
    pub wall_s: f64,
}

pub struct Journal {
    f: std::fs::File,
}
impl Journal {
    pub fn open(path: &str) -> Journal {
        Journal { f: std::fs::OpenOptions::new().create(true).write(true).truncate(true).open(path).expect("journal") }
    }
    pub fn write(&mut self, text: &str) {
        let _ = self.f.set_len(0);
        let _ = self.f.seek(SeekFrom::Start(0));
        let _ = self.f.write_all(text.as_bytes());
    }
}

pub fn mix_seed(seed: u64, prop: u8, worker: u32, leg: u32) -> [u8; 32] {
    let mut out = [0u8; 32];
    let mut x = seed ^ 0x9E37_79B9_7F4A_7C15u64.wrapping_mul(prop as u64 + 1) ^ ((worker as u64) << 32) ^ ((leg as u64) << 48);
    for i in 0..4 {
        // splitmix64
        x = x.wrapping_add(0x9E37_79B9_7F4A_7C15);
        let mut z = x;
        z = (z ^ (z >> 30)).wrapping_mul(0xBF58_476D_1CE4_E5B9);
        z = (z ^ (z >> 27)).wrapping_mul(0x94D0_49BB_1331_11EB);
        z ^= z >> 31;
        out[i * 8..i * 8 + 8].copy_from_slice(&z.to_le_bytes());
    }
    out
}

pub struct Accum {
    pub rep: WorkerReport,
    pub hashes: BTreeSet<u64>,
    pub largest: Option<(usize, serde_json::Value)>,
    pub counting: bool,
}
impl Accum {
    pub fn new(prop: u8, worker: u32, seed: u64) -> Accum {
        Accum { rep: WorkerReport { prop, worker, seed, ..Default::default() }, hashes: BTreeSet::new(), largest: None, counting: true }
    }
    pub fn record<T: Serialize>(&mut self, case: &T, hash: u64, size: usize, nontrivial: bool, stats: &Stats) {
        if !self.counting {
            return;
        }
        self.rep.evaluations += 1;
        for (k, v) in stats.ev.iter() {
            *self.rep.hist.entry(k.to_string()).or_insert(0) += *v as u64;
        }
        let b = match stats.max_size {
            0 => "size_max_0",
            1 => "size_max_1",
            2 => "size_max_2",
            3 => "size_max_3",
            4..=15 => "size_max_4_15",
            16..=63 => "size_max_16_63",
            64..=255 => "size_max_64_255",
            _ => "size_max_256_up",
        };
        *self.rep.hist.entry(b.to_string()).or_insert(0) += 1;
        if nontrivial && self.hashes.insert(hash) {
            self.rep.nontrivial += 1;
            if self.rep.samples.len() < 3 && size <= 24 {
                self.rep.samples.push(serde_json::to_value(case).unwrap());
            }
            if self.largest.as_ref().map_or(true, |(s, _)| size > *s) && size <= 400 {
                self.largest = Some((size, serde_json::to_value(case).unwrap()));
            }
        }
    }
    pub fn finish(mut self, work_dir: &str, wall: f64) -> WorkerReport {
        if let Some((_, v)) = self.largest.take() {
            if self.rep.samples.len() < 4 {
                self.rep.samples.push(v);
            }
        }
        let hf = format!("{}/w{}.hashes", work_dir, self.rep.worker);
        let mut bytes = Vec::with_capacity(self.hashes.len() * 8);
        for h in self.hashes.iter() {
            bytes.extend_from_slice(&h.to_le_bytes());
        }
        let _ = std::fs::write(&hf, bytes);
        self.rep.hashes_file = hf;
        self.rep.wall_s = wall;
        self.rep
    }
}

#[derive(Clone)]
pub struct WorkerArgs {
    pub prop: u8,
    pub thorough: bool,
    pub seed: u64,
    pub worker: u32,
    pub cases: u32,
    pub work_dir: String,
    pub replay_dir: String,
    pub known_path: String,
    pub strict: bool,
    pub nworkers: u32,
}

/// Generic proptest loop for the history-based properties.
pub fn run_history_property(a: &WorkerArgs) -> WorkerReport {
    let t0 = std::time::Instant::now();
    let prop = a.prop;
    let pid = format!("C{:02}", prop);
    let known = if a.strict { vec![] } else { load_known(&a.known_path, &pid) };
    let profile = gen::profile(prop, a.thorough);
    let strat = gen::case_strategy(&profile);
    let mut acc = Accum::new(prop, a.worker, a.seed);
    let mut journal = Journal::open(&format!("{}/w{}.case", a.work_dir, a.worker));
    let config = Config { cases: a.cases, failure_persistence: None, max_shrink_iters: 4000, max_global_rejects: 0, ..Config::default() };
    let mut failures_left = 3;
    let mut leg = 0u32;
    let mut remaining = a.cases;
    #[cfg(feature = "std")]
    if prop == 6 && a.worker % 100 == 0 {
        if let Some(f) = crate::special::zst_sorted_battery() {
            let path = format!("{}/{}-zst-sorted.json", a.replay_dir, pid);
            let _ = std::fs::write(&path, "{\"zst_sorted_battery\":true}");
            acc.rep.violations.push(ViolationRec { signature: f.signature(), detail: f.detail, replay: path, step: 0 });
        }
        acc.rep.extra.insert("zst_sorted_cases".into(), serde_json::json!(12));
    }
    #[cfg(feature = "std")]
    if prop == 15 && a.worker % 100 == 0 {
        // exhaustive small space: zero-sized item/priority types, sequences of length <= 2, 4 carriers
        if let Some(f) = crate::special::zst_battery() {
            let path = format!("{}/{}-zst-battery.json", a.replay_dir, pid);
            let _ = std::fs::write(&path, "{\"zst_battery\":true}");
            acc.rep.violations.push(ViolationRec { signature: f.signature(), detail: f.detail, replay: path, step: 0 });
        }
        acc.rep.extra.insert("zst_battery_cases".into(), serde_json::json!(4 * 3 * 5));
    }
    if matches!(prop, 4 | 16) && a.worker % 100 == 0 {
        // drop accounting under every combination of item / priority types with and without drop glue
        let fails = crate::special::drop_glue_battery();
        for f in fails {
            let owned = match prop {
                16 => matches!(f.op, "clear" | "drain") && f.clause != "double_drop",
                _ => f.clause == "double_drop" || f.clause == "panic",
            };
            if owned && !acc.rep.violations.iter().any(|v| v.signature == f.signature()) {
                let path = format!("{}/{}-drop-glue-battery.json", a.replay_dir, pid);
                let _ = std::fs::write(&path, "{\"drop_glue_battery\":true}");
                acc.rep.violations.push(ViolationRec { signature: f.signature(), detail: f.detail, replay: path, step: 0 });
            } else if !owned {
                *acc.rep.foreign.entry(f.signature()).or_insert(0) += 1;
            }
        }
        acc.rep.extra.insert("drop_glue_battery_scripts".into(), serde_json::json!(6 * 4 * 19));
    }
    // exhaustive small-scope enumeration (partitioned over the workers)
    {
        let small = crate::enumerate::small_cases(prop);
        let mut ran = 0u64;
        for (i, case) in small.iter().enumerate() {
            if (i as u32) % a.nworkers.max(1) != (a.worker % 100) % a.nworkers.max(1) {
                continue;
            }
            journal.write(&case.to_json());
            let cfg = cfg_for(prop, case);
            let r = run_one(case, &cfg, false);
            ran += 1;
            let nt = nontrivial(prop, &r.stats);
            match r.verdict {
                Verdict::Fail(f) => {
                    let sig = f.signature();
                    if known.iter().any(|k| sig_matches(&k.signature, &sig)) {
                        *acc.rep.known.entry(sig).or_insert(0) += 1;
                    } else if !acc.rep.violations.iter().any(|v| v.signature == sig) {
                        let path = format!("{}/{}-{:016x}.json", a.replay_dir, pid, case.hash64());
                        let _ = std::fs::write(&path, case.to_json());
                        acc.rep.violations.push(ViolationRec { signature: sig, detail: f.detail, replay: path, step: f.step });
                    }
                }
                Verdict::HarnessBug(m) => {
                    if acc.rep.harness_bugs.len() < 5 {
                        acc.rep.harness_bugs.push(format!("{} case={}", m, case.to_json()));
                    }
                }
                Verdict::Foreign(f) => {
                    *acc.rep.foreign.entry(f.signature()).or_insert(0) += 1;
                }
                Verdict::Pass => acc.record(case, case.hash64(), r.stats.max_size, nt, &r.stats),
            }
        }
        if !small.is_empty() {
            acc.rep.extra.insert("exhaustive_cases".into(), serde_json::json!(ran));
            acc.rep.extra.insert("exhaustive".into(), serde_json::json!(true));
            acc.rep.extra.insert("exhaustive_space".into(), serde_json::json!(crate::enumerate::space_text(prop)));
        }
    }
    // light-weight scripts on queues of 4 096 ... 131 073 elements (thresholds of fast paths)
    {
        let hc = crate::huge::huge_cases(prop);
        crate::huge::HUGE_PROP.with(|p| p.set(prop));
        let mut ran = 0u64;
        for (i, c) in hc.iter().enumerate() {
            // every worker takes a slice; C03 / C08 visit a third of the grid per run, rotated by the seed
            if (i as u32) % a.nworkers.max(1) != (a.worker % 100) % a.nworkers.max(1) {
                continue;
            }
            if matches!(prop, 3 | 6 | 8) && c.seed < 1000 && (i as u64 + a.seed) % 3 != 0 {
                continue;
            }
            // the position battery: half of the grid per run (rotated by the seed), all of it in the thorough tier
            if c.script == 1 && !a.thorough && (i as u64 + a.seed) % 2 != 0 {
                continue;
            }
            journal.write(&serde_json::to_string(c).unwrap());
            disarm_fuse();
            let r = catch_unwind(AssertUnwindSafe(|| crate::huge::huge_verdict(c)));
            ran += 1;
            let failure = match r {
                Ok(Ok(())) => None,
                Ok(Err(f)) => Some(f),
                Err(_) => {
                    let (msg, loc) = last_panic();
                    if is_harness_location(&loc) {
                        if acc.rep.harness_bugs.len() < 5 {
                            acc.rep.harness_bugs.push(format!("{} @ {} in huge case {:?}", msg, loc, c));
                        }
                        None
                    } else {
                        Some(Failure { group: Group::Panic, clause: "panic", step: 0, op: "huge", detail: format!("panicked: {} @ {} on {:?}", msg, loc, c), kind: if c.kind == Kind::PQ { "PQ" } else { "DPQ" } })
                    }
                }
            };
            if let Some(f) = failure {
                let owned = match prop {
                    1 | 2 => matches!(f.group, Group::Order | Group::Panic),
                    3 => matches!(f.group, Group::Content | Group::Ret | Group::Panic),
                    6 => f.group == Group::Sorted || f.op == "sorted",
                    8 => matches!(f.op, "iter_mut" | "pop_if" | "retain"),
                    11 => matches!(f.op, "push_increase" | "push_decrease") && f.group != Group::Tables,
                    9 => f.op == "iter_mut" && matches!(f.group, Group::Alias | Group::IterMutContract | Group::Panic),
                    13 => matches!(f.op, "iter" | "ref_into_iter" | "into_iter" | "drain" | "sorted_iter") && matches!(f.group, Group::IterStd | Group::Panic),
                    _ => false,
                };
                if owned && !acc.rep.violations.iter().any(|v| v.signature == f.signature()) {
                    let path = format!("{}/{}-huge-{}-{}-{}.json", a.replay_dir, pid, if c.kind == Kind::PQ { "pq" } else { "dpq" }, c.n, c.pattern);
                    let _ = std::fs::write(&path, serde_json::to_string(c).unwrap());
                    acc.rep.violations.push(ViolationRec { signature: f.signature(), detail: f.detail, replay: path, step: 0 });
                } else if !owned {
                    *acc.rep.foreign.entry(f.signature()).or_insert(0) += 1;
                }
            } else {
                let mut st = Stats::default();
                st.max_size = c.n;
                st.hit("huge_queue_script");
                let h = {
                    use std::hash::{Hash, Hasher};
                    let mut hh = std::collections::hash_map::DefaultHasher::new();
                    c.hash(&mut hh);
                    hh.finish()
                };
                acc.record(c, h, 1_000_000, true, &st);
            }
        }
        if ran > 0 {
            acc.rep.extra.insert("huge_queue_scripts".into(), serde_json::json!(ran));
        }
    }
    while remaining > 0 && failures_left > 0 {
        let mut runner = TestRunner::new_with_rng(Config { cases: remaining, ..config.clone() }, TestRng::from_seed(RngAlgorithm::ChaCha, &mix_seed(a.seed, prop, a.worker, leg)));
        let mut last_fail: Option<Failure> = None;
        let mut done_this_leg = 0u32;
        let result = {
            let acc_c = RefCell::new(&mut acc);
            let journal_c = RefCell::new(&mut journal);
            let last_fail_c = RefCell::new(&mut last_fail);
            let known = &known;
            let done_c = RefCell::new(&mut done_this_leg);
            runner.run(&strat, |case| {
                let mut acc = acc_c.borrow_mut();
                let mut journal = journal_c.borrow_mut();
                let mut last_fail = last_fail_c.borrow_mut();
                let mut done = done_c.borrow_mut();
                journal.write(&case.to_json());
                let cfg = cfg_for(prop, &case);
                let r = run_one(&case, &cfg, false);
                if acc.counting {
                    **done += 1;
                }
                let nt = nontrivial(prop, &r.stats);
                match r.verdict {
                    Verdict::Pass => {
                        if prop == 17 {
                            if let Some(f) = capacity_twin_check(&case) {
                                acc.counting = false;
                                let msg = format!("{}: {}", f.signature(), f.detail);
                                **last_fail = Some(f);
                                return Err(TestCaseError::fail(msg));
                            }
                        }
                        acc.record(&case, case.hash64(), r.stats.max_size, nt, &r.stats);
                        Ok(())
                    }
                    Verdict::Foreign(f) => {
                        if acc.counting {
                            *acc.rep.foreign.entry(f.signature()).or_insert(0) += 1;
                        }
                        acc.record(&case, case.hash64(), r.stats.max_size, false, &r.stats);
                        Ok(())
                    }
                    Verdict::HarnessBug(m) => {
                        if acc.rep.harness_bugs.len() < 5 {
                            acc.rep.harness_bugs.push(format!("{} case={}", m, case.to_json()));
                        }
                        Ok(())
                    }
                    Verdict::Fail(f) => {
                        let sig = f.signature();
                        if known.iter().any(|k| sig_matches(&k.signature, &sig)) {
                            if acc.counting {
                                *acc.rep.known.entry(sig).or_insert(0) += 1;
                                acc.record(&case, case.hash64(), r.stats.max_size, false, &r.stats);
                            }
                            return Ok(());
                        }
                        acc.counting = false;
                        let msg = format!("{}: {}", sig, f.detail);
                        **last_fail = Some(f);
                        Err(TestCaseError::fail(msg))
                    }
                }
            })
        };
        acc.counting = true;
        match result {
            Ok(()) => break,
            Err(TestError::Fail(reason, case)) => {
                // re-run the minimal case to get its failure record
                let cfg = cfg_for(prop, &case);
                let r = run_one(&case, &cfg, false);
                let twin_fail = if prop == 17 && matches!(r.verdict, Verdict::Pass) { capacity_twin_check(&case) } else { None };
                let (sig, detail, step) = match r.verdict {
                    _ if twin_fail.is_some() => {
                        let f = twin_fail.unwrap();
                        (f.signature(), f.detail.clone(), f.step)
                    }
                    Verdict::Fail(f) => (f.signature(), f.detail.clone(), f.step),
                    _ => (last_fail.map(|f| f.signature()).unwrap_or_default(), reason.to_string(), -1),
                };
                let path = format!("{}/{}-{:016x}.json", a.replay_dir, pid, case.hash64());
                let _ = std::fs::write(&path, case.to_json());
                if !acc.rep.violations.iter().any(|v| v.signature == sig) {
                    acc.rep.violations.push(ViolationRec { signature: sig, detail, replay: path, step });
                }
                failures_left -= 1;
                remaining = remaining.saturating_sub(done_this_leg.max(1));
                leg += 1;
            }
            Err(TestError::Abort(r)) => {
                acc.rep.harness_bugs.push(format!("proptest aborted: {}", r));
                break;
            }
        }
    }
    acc.finish(&a.work_dir, t0.elapsed().as_secs_f64())
}

/// C17: the same history with every capacity operation left out must return exactly the same
/// values, item for item (capacity management is invisible: not even the choice among equal
/// priorities may depend on it).
pub fn capacity_twin_check(case: &Case) -> Option<Failure> {
    let strip = |c: &Case| -> Case {
        let mut t = c.clone();
        t.ops = c
            .ops
            .iter()
            .filter(|o| {
                let inner = if let Op::DuringUnwind { op } = o { op.as_ref() } else { *o };
                !matches!(inner, Op::Reserve { .. } | Op::Shrink)
            })
            .cloned()
            .map(|o| match o {
                Op::Append { pairs, swap_roles, mirror, .. } => Op::Append { pairs, swap_roles, mirror, cap: 0 },
                Op::DuringUnwind { op } => match *op {
                    Op::Append { pairs, swap_roles, mirror, .. } => Op::DuringUnwind { op: Box::new(Op::Append { pairs, swap_roles, mirror, cap: 0 }) },
                    o => Op::DuringUnwind { op: Box::new(o) },
                },
                o => o,
            })
            .collect();
        t.ctor.how = match c.ctor.how {
            CtorKind::WithCapacity(_) => CtorKind::New,
            CtorKind::WithCapacityAndHasher(_) => CtorKind::WithHasher,
            CtorKind::WithCapacityAndDefaultHasher(_) => CtorKind::WithDefaultHasher,
            h => h,
        };
        t
    };
    let twin = strip(case);
    if twin == *case {
        return None;
    }
    let mut cfg = cfg_for(17, case);
    cfg.strict_trace = true;
    let a = run_one(case, &cfg, true);
    let b = run_one(&twin, &cfg, true);
    match (&a.verdict, &b.verdict, &a.trace, &b.trace) {
        (Verdict::Pass, Verdict::Pass, Some(ta), Some(tb)) => {
            if ta != tb {
                let at = ta.iter().zip(tb.iter()).position(|(x, y)| x != y).unwrap_or(ta.len().min(tb.len()));
                return Some(Failure {
                    group: Group::Cap,
                    clause: "capacity_ops_change_results",
                    step: at as i32,
                    op: "reserve",
                    detail: format!(
                        "the history returns {:?} as its {}th value, the same history without its capacity operations returns {:?} (capacity management must be invisible, also among equal priorities)",
                        ta.get(at),
                        at,
                        tb.get(at)
                    ),
                    kind: if case.kind == Kind::PQ { "PQ" } else { "DPQ" },
                });
            }
            None
        }
        _ => None,
    }
}

/// Replay one case file under a property; returns the failure if it still fails.
pub fn replay_history(prop: u8, text: &str, strict_known: &[KnownFinding]) -> Result<Option<Failure>, String> {
    #[cfg(feature = "std")]
    if prop == 6 && text.contains("zst_sorted_battery") {
        return Ok(crate::special::zst_sorted_battery());
    }
    if text.contains("\"huge\":true") {
        let c: crate::huge::HugeCase = serde_json::from_str(text).map_err(|e| format!("cannot parse case: {}", e))?;
        crate::huge::HUGE_PROP.with(|p| p.set(prop));
        return Ok(crate::huge::huge_verdict(&c).err());
    }
    if text.contains("drop_glue_battery") {
        let fails = crate::special::drop_glue_battery();
        return Ok(fails.into_iter().find(|f| match prop {
            16 => matches!(f.op, "clear" | "drain") && f.clause != "double_drop",
            _ => f.clause == "double_drop" || f.clause == "panic",
        }));
    }
    #[cfg(feature = "std")]
    if prop == 15 && text.contains("zst_battery") {
        return Ok(crate::special::zst_battery());
    }
    let case: Case = serde_json::from_str(text).map_err(|e| format!("cannot parse case: {}", e))?;
    let cfg = cfg_for(prop, &case);
    let r = run_one(&case, &cfg, false);
    match r.verdict {
        Verdict::Fail(f) => {
            if strict_known.iter().any(|k| sig_matches(&k.signature, &f.signature())) {
                Ok(None)
            } else {
                Ok(Some(f))
            }
        }
        Verdict::HarnessBug(m) => Err(m),
        Verdict::Pass if prop == 17 => Ok(capacity_twin_check(&case)),
        _ => Ok(None),
    }
}

thread_local! {
    pub static AFTER_SPECIAL: std::cell::Cell<bool> = const { std::cell::Cell::new(false) };
}

#[allow(dead_code)]
fn _unused(_: &dyn ValueTree<Value = u8>) {}
