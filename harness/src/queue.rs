//! One trait over the two queue kinds and the hasher types, so that the interpreter, the oracles
//! and every property check are written once.

use std::borrow::Borrow;
use std::hash::Hash;

use priority_queue::core_iterators::{Drain, IntoIter, Iter};
use priority_queue::{DoublePriorityQueue, PriorityQueue};

use crate::types::*;

pub type Elem = (u32, u32, i64); // (id, tag, prio)

#[inline]
pub fn elem(k: &Key, p: &Prio) -> Elem {
    (k.id, k.tag, p.v)
}
#[inline]
pub fn elem_owned(kp: (Key, Prio)) -> Elem {
    (kp.0.id, kp.0.tag, kp.1.v)
}

/// Owned copy of the hook snapshot.
#[derive(Clone, Debug, PartialEq, Eq)]
pub struct Snap {
    pub heap: Vec<usize>,
    pub qp: Vec<usize>,
    pub size: usize,
    pub map_len: usize,
    /// per heap position: (id, prio) if the slot index is valid
    pub entries: Vec<Option<(u32, i64)>>,
}

#[derive(Clone, Copy, PartialEq, Eq, Debug)]
pub enum CtorHow {
    New,
    WithCapacity(usize),
    WithHasher,
    WithCapacityAndHasher(usize),
    WithDefaultHasher,
    WithCapacityAndDefaultHasher(usize),
    Default,
}

pub trait Queue: Sized + Clone {
    const DOUBLE: bool;
    const NAME: &'static str;
    const HASHER: &'static str;
    type Other: Queue<Other = Self>;
    type IterMut<'a>: Iterator<Item = (&'a mut Key, &'a mut Prio)>
    where
        Self: 'a;
    type Sorted: Iterator<Item = (Key, Prio)>;

    fn construct(how: CtorHow, hk: HasherKind) -> Self;
    fn from_vec(v: Vec<(Key, Prio)>) -> Self;
    fn from_iterator<T: Iterator<Item = (Key, Prio)>>(it: T) -> Self;
    fn into_other(self) -> Self::Other;

    fn len(&self) -> usize;
    fn is_empty(&self) -> bool;
    fn capacity(&self) -> usize;
    fn peek_max(&self) -> Option<(&Key, &Prio)>;
    /// None for the single-ended queue
    fn peek_min(&self) -> Option<(&Key, &Prio)>;
    fn peek_max_mut(&mut self) -> Option<(&mut Key, &Prio)>;
    fn peek_min_mut(&mut self) -> Option<(&mut Key, &Prio)>;
    fn pop_max(&mut self) -> Option<(Key, Prio)>;
    fn pop_min(&mut self) -> Option<(Key, Prio)>;
    fn pop_max_if<F: FnOnce(&mut Key, &mut Prio) -> bool>(&mut self, f: F) -> Option<(Key, Prio)>;
    fn pop_min_if<F: FnOnce(&mut Key, &mut Prio) -> bool>(&mut self, f: F) -> Option<(Key, Prio)>;
    fn push(&mut self, k: Key, p: Prio) -> Option<Prio>;
    fn push_increase(&mut self, k: Key, p: Prio) -> Option<Prio>;
    fn push_decrease(&mut self, k: Key, p: Prio) -> Option<Prio>;
    fn change_priority<Q: ?Sized + Eq + Hash>(&mut self, k: &Q, p: Prio) -> Option<Prio>
    where
        Key: Borrow<Q>;
    fn change_priority_by<Q: ?Sized + Eq + Hash, F: FnOnce(&mut Prio)>(&mut self, k: &Q, f: F) -> bool
    where
        Key: Borrow<Q>;
    fn get_priority<Q: ?Sized + Eq + Hash>(&self, k: &Q) -> Option<&Prio>
    where
        Key: Borrow<Q>;
    fn get<Q: ?Sized + Eq + Hash>(&self, k: &Q) -> Option<(&Key, &Prio)>
    where
        Key: Borrow<Q>;
    fn get_mut<Q: ?Sized + Eq + Hash>(&mut self, k: &Q) -> Option<(&mut Key, &Prio)>
    where
        Key: Borrow<Q>;
    fn remove<Q: ?Sized + Eq + Hash>(&mut self, k: &Q) -> Option<(Key, Prio)>
    where
        Key: Borrow<Q>;
    fn retain<F: FnMut(&Key, &Prio) -> bool>(&mut self, f: F);
    fn retain_mut<F: FnMut(&mut Key, &mut Prio) -> bool>(&mut self, f: F);
    fn extend_with<T: Iterator<Item = (Key, Prio)>>(&mut self, it: T);
    fn append(&mut self, other: &mut Self);
    fn clear(&mut self);
    fn iter(&self) -> Iter<'_, Key, Prio>;
    fn ref_into_iter(&self) -> Iter<'_, Key, Prio>;
    fn drain(&mut self) -> Drain<'_, Key, Prio>;
    fn into_iter_owned(self) -> IntoIter<Key, Prio>;
    fn into_vec(self) -> Vec<Key>;
    fn iter_mut(&mut self) -> Self::IterMut<'_>;
    /// `(&mut q).into_iter()`
    fn mut_into_iter(&mut self) -> Self::IterMut<'_>;
    /// None when the iterator type offers no `next_back`
    fn iter_mut_back<'a>(it: &mut Self::IterMut<'a>) -> Option<Option<(&'a mut Key, &'a mut Prio)>>;
    /// (len(), size_hint()) when the type declares ExactSizeIterator, else (None, size_hint())
    fn iter_mut_len(it: &Self::IterMut<'_>) -> (Option<usize>, (usize, Option<usize>));
    fn into_sorted_iter(self) -> Self::Sorted;
    fn sorted_back(it: &mut Self::Sorted) -> Option<Option<(Key, Prio)>>;
    fn sorted_len(it: &Self::Sorted) -> (Option<usize>, (usize, Option<usize>));
    /// drive iter_mut through an internal-iteration method, calling `f` on every visited element
    fn iter_mut_each(&mut self, how: u8, k: usize, f: &mut dyn FnMut(&mut Key, &mut Prio));
    /// std adaptor composition applied to the real iter_mut type
    fn iter_mut_adapt(&mut self, comp: crate::case::Comp, a: usize, b: usize) -> Option<crate::ops_iter::AdaptOut>;
    /// std adaptor composition applied to the real sorted iterator type
    fn sorted_adapt(self, comp: crate::case::Comp, a: usize, b: usize) -> Option<crate::ops_iter::AdaptOut>;
    /// PQ: into_sorted_vec; DPQ: into_descending_sorted_vec
    fn into_desc_vec(self) -> Vec<Key>;
    /// DPQ only
    fn into_asc_vec(self) -> Option<Vec<Key>>;
    fn reserve(&mut self, n: usize);
    fn reserve_exact(&mut self, n: usize);
    fn try_reserve(&mut self, n: usize) -> Result<(), String>;
    fn try_reserve_exact(&mut self, n: usize) -> Result<(), String>;
    fn shrink_to_fit(&mut self);
    fn eq_q(&self, o: &Self) -> bool;
    fn ne_q(&self, o: &Self) -> bool;
    fn snapshot(&self) -> Snap;
    fn debug_string(&self) -> String;
    #[cfg(feature = "std")]
    fn to_json(&self) -> Result<String, String>;
    #[cfg(feature = "std")]
    fn from_json(s: &str) -> Result<Self, String>;
    #[cfg(feature = "std")]
    fn to_value(&self) -> Result<serde_json::Value, String>;
    #[cfg(feature = "std")]
    fn from_value(v: serde_json::Value) -> Result<Self, String>;
    /// serde's in-place entry point (`Deserialize::deserialize_in_place`) on JSON text
    #[cfg(feature = "std")]
    fn from_json_in_place(dst: &mut Self, s: &str) -> Result<(), String>;
    /// through a sequence deserializer announcing `hint` elements
    #[cfg(feature = "std")]
    fn from_pairs_hinted(v: Vec<((u32, u32), i64)>, hint: Option<usize>) -> Result<Self, String>;
    /// through serde's `SeqDeserializer` over a Vec (exact size hint, not self describing)
    #[cfg(feature = "std")]
    fn from_pairs(v: Vec<((u32, u32), i64)>) -> Result<Self, String>;
}

/// A sequence whose announced length is independent of what it delivers.
#[cfg(feature = "std")]
pub struct HintSeq {
    pub items: std::vec::IntoIter<serde_json::Value>,
    pub hint: Option<usize>,
}
#[cfg(feature = "std")]
impl<'de> serde::de::SeqAccess<'de> for HintSeq {
    type Error = serde_json::Error;
    fn next_element_seed<T: serde::de::DeserializeSeed<'de>>(&mut self, seed: T) -> Result<Option<T::Value>, serde_json::Error> {
        match self.items.next() {
            Some(v) => seed.deserialize(v).map(Some),
            None => Ok(None),
        }
    }
    fn size_hint(&self) -> Option<usize> {
        self.hint
    }
}
#[cfg(feature = "std")]
pub struct HintDe(pub HintSeq);
#[cfg(feature = "std")]
impl<'de> serde::Deserializer<'de> for HintDe {
    type Error = serde_json::Error;
    fn deserialize_any<V: serde::de::Visitor<'de>>(self, v: V) -> Result<V::Value, serde_json::Error> {
        v.visit_seq(self.0)
    }
    serde::forward_to_deserialize_any! {
        bool i8 i16 i32 i64 i128 u8 u16 u32 u64 u128 f32 f64 char str string bytes byte_buf option unit
        unit_struct newtype_struct seq tuple tuple_struct map struct enum identifier ignored_any
    }
}

fn snap_of(s: priority_queue::VerifSnapshot<'_, Key, Prio>) -> Snap {
    Snap {
        heap: s.heap,
        qp: s.qp,
        size: s.size,
        map_len: s.map_len,
        entries: s
            .entries
            .iter()
            .map(|e| e.map(|(k, p)| (k.id, p.v)))
            .collect(),
    }
}

macro_rules! common_methods {
    ($T:ident, $H:ty) => {
        fn from_vec(v: Vec<(Key, Prio)>) -> Self {
            <$T<Key, Prio, $H>>::from(v)
        }
        fn from_iterator<T: Iterator<Item = (Key, Prio)>>(it: T) -> Self {
            it.collect()
        }
        fn len(&self) -> usize {
            $T::len(self)
        }
        fn is_empty(&self) -> bool {
            $T::is_empty(self)
        }
        fn capacity(&self) -> usize {
            $T::capacity(self)
        }
        fn push(&mut self, k: Key, p: Prio) -> Option<Prio> {
            $T::push(self, k, p)
        }
        fn push_increase(&mut self, k: Key, p: Prio) -> Option<Prio> {
            $T::push_increase(self, k, p)
        }
        fn push_decrease(&mut self, k: Key, p: Prio) -> Option<Prio> {
            $T::push_decrease(self, k, p)
        }
        fn change_priority<Q: ?Sized + Eq + Hash>(&mut self, k: &Q, p: Prio) -> Option<Prio>
        where
            Key: Borrow<Q>,
        {
            $T::change_priority(self, k, p)
        }
        fn change_priority_by<Q: ?Sized + Eq + Hash, F: FnOnce(&mut Prio)>(&mut self, k: &Q, f: F) -> bool
        where
            Key: Borrow<Q>,
        {
            $T::change_priority_by(self, k, f)
        }
        fn get_priority<Q: ?Sized + Eq + Hash>(&self, k: &Q) -> Option<&Prio>
        where
            Key: Borrow<Q>,
        {
            $T::get_priority(self, k)
        }
        fn get<Q: ?Sized + Eq + Hash>(&self, k: &Q) -> Option<(&Key, &Prio)>
        where
            Key: Borrow<Q>,
        {
            $T::get(self, k)
        }
        fn get_mut<Q: ?Sized + Eq + Hash>(&mut self, k: &Q) -> Option<(&mut Key, &Prio)>
        where
            Key: Borrow<Q>,
        {
            $T::get_mut(self, k)
        }
        fn remove<Q: ?Sized + Eq + Hash>(&mut self, k: &Q) -> Option<(Key, Prio)>
        where
            Key: Borrow<Q>,
        {
            $T::remove(self, k)
        }
        fn retain<F: FnMut(&Key, &Prio) -> bool>(&mut self, f: F) {
            $T::retain(self, f)
        }
        fn retain_mut<F: FnMut(&mut Key, &mut Prio) -> bool>(&mut self, f: F) {
            $T::retain_mut(self, f)
        }
        fn extend_with<T: Iterator<Item = (Key, Prio)>>(&mut self, it: T) {
            Extend::extend(self, it)
        }
        fn append(&mut self, other: &mut Self) {
            $T::append(self, other)
        }
        fn clear(&mut self) {
            $T::clear(self)
        }
        fn iter(&self) -> Iter<'_, Key, Prio> {
            $T::iter(self)
        }
        fn ref_into_iter(&self) -> Iter<'_, Key, Prio> {
            IntoIterator::into_iter(self)
        }
        fn drain(&mut self) -> Drain<'_, Key, Prio> {
            $T::drain(self)
        }
        fn into_iter_owned(self) -> IntoIter<Key, Prio> {
            IntoIterator::into_iter(self)
        }
        fn into_vec(self) -> Vec<Key> {
            $T::into_vec(self)
        }
        fn iter_mut(&mut self) -> Self::IterMut<'_> {
            $T::iter_mut(self)
        }
        fn mut_into_iter(&mut self) -> Self::IterMut<'_> {
            IntoIterator::into_iter(self)
        }
        fn into_sorted_iter(self) -> Self::Sorted {
            $T::into_sorted_iter(self)
        }
        fn reserve(&mut self, n: usize) {
            $T::reserve(self, n)
        }
        fn reserve_exact(&mut self, n: usize) {
            $T::reserve_exact(self, n)
        }
        fn try_reserve(&mut self, n: usize) -> Result<(), String> {
            $T::try_reserve(self, n).map_err(|e| {
                let _ = format!("{:?}", e);
                format!("{}", e)
            })
        }
        fn try_reserve_exact(&mut self, n: usize) -> Result<(), String> {
            $T::try_reserve_exact(self, n).map_err(|e| {
                let _ = format!("{:?}", e);
                format!("{}", e)
            })
        }
        fn shrink_to_fit(&mut self) {
            $T::shrink_to_fit(self)
        }
        fn eq_q(&self, o: &Self) -> bool {
            self == o
        }
        fn ne_q(&self, o: &Self) -> bool {
            self != o
        }
        fn snapshot(&self) -> Snap {
            snap_of(self.verif_snapshot())
        }
        fn debug_string(&self) -> String {
            format!("{:?}", self)
        }
        #[cfg(feature = "std")]
        fn to_json(&self) -> Result<String, String> {
            serde_json::to_string(self).map_err(|e| e.to_string())
        }
        #[cfg(feature = "std")]
        fn from_json(s: &str) -> Result<Self, String> {
            serde_json::from_str(s).map_err(|e| e.to_string())
        }
        #[cfg(feature = "std")]
        fn from_json_in_place(dst: &mut Self, s: &str) -> Result<(), String> {
            let mut de = serde_json::Deserializer::from_str(s);
            serde::Deserialize::deserialize_in_place(&mut de, dst).map_err(|e| e.to_string())?;
            de.end().map_err(|e| e.to_string())
        }
        #[cfg(feature = "std")]
        fn to_value(&self) -> Result<serde_json::Value, String> {
            serde_json::to_value(self).map_err(|e| e.to_string())
        }
        #[cfg(feature = "std")]
        fn from_value(v: serde_json::Value) -> Result<Self, String> {
            serde_json::from_value(v).map_err(|e| e.to_string())
        }
        #[cfg(feature = "std")]
        fn from_pairs_hinted(v: Vec<((u32, u32), i64)>, hint: Option<usize>) -> Result<Self, String> {
            use serde::Deserialize;
            let vals: Vec<serde_json::Value> = v.into_iter().map(|((id, tag), p)| serde_json::json!([[id, tag], p])).collect();
            <Self as Deserialize>::deserialize(HintDe(HintSeq { items: vals.into_iter(), hint })).map_err(|e| e.to_string())
        }
        #[cfg(feature = "std")]
        fn from_pairs(v: Vec<((u32, u32), i64)>) -> Result<Self, String> {
            use serde::de::value::SeqDeserializer;
            use serde::Deserialize;
            let vals: Vec<serde_json::Value> = v.into_iter().map(|((id, tag), p)| serde_json::json!([[id, tag], p])).collect();
            let d: SeqDeserializer<_, serde_json::Error> = SeqDeserializer::new(vals.into_iter());
            <Self as Deserialize>::deserialize(d).map_err(|e| e.to_string())
        }
    };
}

macro_rules! construct_hb {
    ($T:ident) => {
        fn construct(how: CtorHow, hk: HasherKind) -> Self {
            set_default_hb(hk);
            match how {
                CtorHow::New | CtorHow::WithDefaultHasher => $T::with_default_hasher(),
                CtorHow::WithCapacity(c) | CtorHow::WithCapacityAndDefaultHasher(c) => {
                    $T::with_capacity_and_default_hasher(c)
                }
                CtorHow::WithHasher => $T::with_hasher(HB::of(hk)),
                CtorHow::WithCapacityAndHasher(c) => $T::with_capacity_and_hasher(c, HB::of(hk)),
                CtorHow::Default => Default::default(),
            }
        }
    };
}

#[cfg(feature = "std")]
macro_rules! construct_rs {
    ($T:ident) => {
        fn construct(how: CtorHow, _hk: HasherKind) -> Self {
            use std::collections::hash_map::RandomState;
            match how {
                CtorHow::New => $T::new(),
                CtorHow::WithCapacity(c) => $T::with_capacity(c),
                CtorHow::WithDefaultHasher => $T::with_default_hasher(),
                CtorHow::WithCapacityAndDefaultHasher(c) => $T::with_capacity_and_default_hasher(c),
                CtorHow::WithHasher => $T::with_hasher(RandomState::new()),
                CtorHow::WithCapacityAndHasher(c) => {
                    $T::with_capacity_and_hasher(c, RandomState::new())
                }
                CtorHow::Default => Default::default(),
            }
        }
    };
}

macro_rules! impl_pq {
    ($H:ty, $hname:expr, $ctor:ident) => {
        impl Queue for PriorityQueue<Key, Prio, $H> {
            const DOUBLE: bool = false;
            const NAME: &'static str = "PQ";
            const HASHER: &'static str = $hname;
            type Other = DoublePriorityQueue<Key, Prio, $H>;
            type IterMut<'a> = priority_queue::priority_queue::iterators::IterMut<'a, Key, Prio, $H>;
            type Sorted = priority_queue::priority_queue::iterators::IntoSortedIter<Key, Prio, $H>;
            $ctor!(PriorityQueue);
            common_methods!(PriorityQueue, $H);
            fn into_other(self) -> Self::Other {
                self.into()
            }
            fn peek_max(&self) -> Option<(&Key, &Prio)> {
                self.peek()
            }
            fn peek_min(&self) -> Option<(&Key, &Prio)> {
                None
            }
            fn peek_max_mut(&mut self) -> Option<(&mut Key, &Prio)> {
                self.peek_mut()
            }
            fn peek_min_mut(&mut self) -> Option<(&mut Key, &Prio)> {
                None
            }
            fn pop_max(&mut self) -> Option<(Key, Prio)> {
                self.pop()
            }
            fn pop_min(&mut self) -> Option<(Key, Prio)> {
                None
            }
            fn pop_max_if<F: FnOnce(&mut Key, &mut Prio) -> bool>(&mut self, f: F) -> Option<(Key, Prio)> {
                self.pop_if(f)
            }
            fn pop_min_if<F: FnOnce(&mut Key, &mut Prio) -> bool>(&mut self, _f: F) -> Option<(Key, Prio)> {
                None
            }
            fn iter_mut_back<'a>(
                _it: &mut Self::IterMut<'a>,
            ) -> Option<Option<(&'a mut Key, &'a mut Prio)>> {
                None
            }
            fn iter_mut_len(it: &Self::IterMut<'_>) -> (Option<usize>, (usize, Option<usize>)) {
                (None, it.size_hint())
            }
            fn sorted_back(_it: &mut Self::Sorted) -> Option<Option<(Key, Prio)>> {
                None
            }
            fn sorted_len(it: &Self::Sorted) -> (Option<usize>, (usize, Option<usize>)) {
                (None, it.size_hint())
            }
            fn sorted_adapt(self, comp: crate::case::Comp, a: usize, b: usize) -> Option<crate::ops_iter::AdaptOut> {
                crate::ops_iter::adapt_plain(self.into_sorted_iter(), elem_owned, comp, a, b)
            }
            fn iter_mut_each(&mut self, how: u8, k: usize, f: &mut dyn FnMut(&mut Key, &mut Prio)) {
                // 8..15: references taken one at a time and written while the iterator is still alive
                match how % 16 {
                    8 | 9 | 10 => {
                        let mut it = self.iter_mut();
                        if let Some((a, b)) = it.nth(k) {
                            f(a, b)
                        }
                        return;
                    }
                    11 | 15 => {
                        let mut it = self.iter_mut();
                        if let Some((a, b)) = it.find(|(a, _)| a.id as usize % (k + 1) == 0) {
                            f(a, b)
                        }
                        return;
                    }
                    12 => {
                        let mut it = self.iter_mut();
                        if let Some((a, b)) = it.next() {
                            f(a, b)
                        }
                        return;
                    }
                    13 => {
                        let mut it = self.iter_mut();
                        let x = it.nth(k);
                        let y = it.next();
                        for (a, b) in x.into_iter().chain(y) {
                            f(a, b)
                        }
                        return;
                    }
                    14 => {
                        let mut it = self.iter_mut();
                        it.by_ref().take(k).for_each(|(a, b)| f(a, b));
                        if let Some((a, b)) = it.next() {
                            f(a, b)
                        }
                        return;
                    }
                    _ => {}
                }
                match how % 8 {
                    0 | 2 => self.iter_mut().for_each(|(a, b)| f(a, b)),
                    1 => self.iter_mut().fold((), |_, (a, b)| f(a, b)),
                    3 => self.iter_mut().take(k).for_each(|(a, b)| f(a, b)),
                    4 => self.iter_mut().skip(k).for_each(|(a, b)| f(a, b)),
                    5 => self.iter_mut().step_by(k + 1).for_each(|(a, b)| f(a, b)),
                    6 => {
                        for (a, b) in &mut *self {
                            f(a, b)
                        }
                    }
                    _ => {
                        let _ = self.iter_mut().try_for_each(|(a, b)| {
                            f(a, b);
                            Some(())
                        });
                    }
                }
            }
            fn iter_mut_adapt(&mut self, comp: crate::case::Comp, a: usize, b: usize) -> Option<crate::ops_iter::AdaptOut> {
                crate::ops_iter::adapt_plain(self.iter_mut(), |(k, p): (&mut Key, &mut Prio)| (k.id, k.tag, p.v), comp, a, b)
            }
            fn into_desc_vec(self) -> Vec<Key> {
                self.into_sorted_vec()
            }
            fn into_asc_vec(self) -> Option<Vec<Key>> {
                None
            }
        }
    };
}

macro_rules! impl_dpq {
    ($H:ty, $hname:expr, $ctor:ident) => {
        impl Queue for DoublePriorityQueue<Key, Prio, $H> {
            const DOUBLE: bool = true;
            const NAME: &'static str = "DPQ";
            const HASHER: &'static str = $hname;
            type Other = PriorityQueue<Key, Prio, $H>;
            type IterMut<'a> =
                priority_queue::double_priority_queue::iterators::IterMut<'a, Key, Prio, $H>;
            type Sorted =
                priority_queue::double_priority_queue::iterators::IntoSortedIter<Key, Prio, $H>;
            $ctor!(DoublePriorityQueue);
            common_methods!(DoublePriorityQueue, $H);
            fn into_other(self) -> Self::Other {
                self.into()
            }
            fn peek_max(&self) -> Option<(&Key, &Prio)> {
                DoublePriorityQueue::peek_max(self)
            }
            fn peek_min(&self) -> Option<(&Key, &Prio)> {
                DoublePriorityQueue::peek_min(self)
            }
            fn peek_max_mut(&mut self) -> Option<(&mut Key, &Prio)> {
                DoublePriorityQueue::peek_max_mut(self)
            }
            fn peek_min_mut(&mut self) -> Option<(&mut Key, &Prio)> {
                DoublePriorityQueue::peek_min_mut(self)
            }
            fn pop_max(&mut self) -> Option<(Key, Prio)> {
                DoublePriorityQueue::pop_max(self)
            }
            fn pop_min(&mut self) -> Option<(Key, Prio)> {
                DoublePriorityQueue::pop_min(self)
            }
            fn pop_max_if<F: FnOnce(&mut Key, &mut Prio) -> bool>(&mut self, f: F) -> Option<(Key, Prio)> {
                DoublePriorityQueue::pop_max_if(self, f)
            }
            fn pop_min_if<F: FnOnce(&mut Key, &mut Prio) -> bool>(&mut self, f: F) -> Option<(Key, Prio)> {
                DoublePriorityQueue::pop_min_if(self, f)
            }
            fn iter_mut_back<'a>(
                it: &mut Self::IterMut<'a>,
            ) -> Option<Option<(&'a mut Key, &'a mut Prio)>> {
                Some(it.next_back())
            }
            fn iter_mut_len(it: &Self::IterMut<'_>) -> (Option<usize>, (usize, Option<usize>)) {
                (Some(ExactSizeIterator::len(it)), it.size_hint())
            }
            fn sorted_back(it: &mut Self::Sorted) -> Option<Option<(Key, Prio)>> {
                Some(it.next_back())
            }
            fn sorted_len(it: &Self::Sorted) -> (Option<usize>, (usize, Option<usize>)) {
                (Some(ExactSizeIterator::len(it)), it.size_hint())
            }
            fn sorted_adapt(self, comp: crate::case::Comp, a: usize, b: usize) -> Option<crate::ops_iter::AdaptOut> {
                Some(crate::ops_iter::adapt_full(self.into_sorted_iter(), elem_owned, comp, a, b))
            }
            fn iter_mut_each(&mut self, how: u8, k: usize, f: &mut dyn FnMut(&mut Key, &mut Prio)) {
                match how % 16 {
                    8 => {
                        let mut it = self.iter_mut();
                        if let Some((a, b)) = it.nth(k) {
                            f(a, b)
                        }
                        return;
                    }
                    9 => {
                        let mut it = self.iter_mut();
                        if let Some((a, b)) = it.nth_back(k) {
                            f(a, b)
                        }
                        return;
                    }
                    10 => {
                        let mut it = self.iter_mut().rev();
                        if let Some((a, b)) = it.nth(k) {
                            f(a, b)
                        }
                        return;
                    }
                    11 => {
                        let mut it = self.iter_mut();
                        if let Some((a, b)) = it.find(|(a, _)| a.id as usize % (k + 1) == 0) {
                            f(a, b)
                        }
                        return;
                    }
                    15 => {
                        let mut it = self.iter_mut();
                        if let Some((a, b)) = it.rfind(|(a, _)| a.id as usize % (k + 1) == 0) {
                            f(a, b)
                        }
                        return;
                    }
                    12 => {
                        let mut it = self.iter_mut();
                        if let Some((a, b)) = it.next_back() {
                            f(a, b)
                        }
                        return;
                    }
                    13 => {
                        let mut it = self.iter_mut();
                        let x = it.nth(k);
                        let y = it.nth_back(0);
                        for (a, b) in x.into_iter().chain(y) {
                            f(a, b)
                        }
                        return;
                    }
                    14 => {
                        let mut it = self.iter_mut();
                        it.by_ref().take(k).for_each(|(a, b)| f(a, b));
                        if let Some((a, b)) = it.next_back() {
                            f(a, b)
                        }
                        return;
                    }
                    _ => {}
                }
                match how % 8 {
                    0 => self.iter_mut().for_each(|(a, b)| f(a, b)),
                    2 => self.iter_mut().rev().for_each(|(a, b)| f(a, b)),
                    1 => self.iter_mut().fold((), |_, (a, b)| f(a, b)),
                    3 => self.iter_mut().take(k).for_each(|(a, b)| f(a, b)),
                    4 => self.iter_mut().skip(k).for_each(|(a, b)| f(a, b)),
                    5 => self.iter_mut().step_by(k + 1).for_each(|(a, b)| f(a, b)),
                    6 => {
                        for (a, b) in &mut *self {
                            f(a, b)
                        }
                    }
                    _ => {
                        let _ = self.iter_mut().try_for_each(|(a, b)| {
                            f(a, b);
                            Some(())
                        });
                    }
                }
            }
            fn iter_mut_adapt(&mut self, comp: crate::case::Comp, a: usize, b: usize) -> Option<crate::ops_iter::AdaptOut> {
                Some(crate::ops_iter::adapt_full(self.iter_mut(), |(k, p): (&mut Key, &mut Prio)| (k.id, k.tag, p.v), comp, a, b))
            }
            fn into_desc_vec(self) -> Vec<Key> {
                self.into_descending_sorted_vec()
            }
            fn into_asc_vec(self) -> Option<Vec<Key>> {
                Some(self.into_ascending_sorted_vec())
            }
        }
    };
}

impl_pq!(HB, "HB", construct_hb);
impl_dpq!(HB, "HB", construct_hb);
#[cfg(feature = "std")]
impl_pq!(std::collections::hash_map::RandomState, "RandomState", construct_rs);
#[cfg(feature = "std")]
impl_dpq!(std::collections::hash_map::RandomState, "RandomState", construct_rs);

pub type PqHb = PriorityQueue<Key, Prio, HB>;
pub type DpqHb = DoublePriorityQueue<Key, Prio, HB>;
#[cfg(feature = "std")]
pub type PqRs = PriorityQueue<Key, Prio, std::collections::hash_map::RandomState>;
#[cfg(feature = "std")]
pub type DpqRs = DoublePriorityQueue<Key, Prio, std::collections::hash_map::RandomState>;
