//! C10: panics injected into user code at every callback index, leaked iterators, and arbitrary
//! continuations. The oracle is memory safety (the process must survive in the sanitizing build)
//! and drop accounting; order, contents and even len() are unspecified after a fault.

use std::panic::{catch_unwind, AssertUnwindSafe};

use proptest::collection::vec;
use proptest::prelude::*;

use crate::case::*;
use crate::gen;
use crate::interp::*;
use crate::model::Model;
use crate::oracle::*;
use crate::queue::*;
use crate::runner::*;
use crate::special::{run_special, SVerdict};
use crate::types::*;

pub fn fault_case_strategy(thorough: bool) -> BoxedStrategy<Case> {
    let mut p = gen::profile(4, thorough);
    p.unwind_w = 0; // this runner raises its own panics
    p.max_ops = if thorough { 40 } else { 24 };
    p.leaks = true;
    p.reserve_overflow = false;
    p.try_huge = false;
    p.huge_hints = false;
    p.size_w = [1, 1, 1, 2, 6, 4, 1, 0];
    p.hashers = &[HasherKind::Fixed, HasherKind::Random, HasherKind::Xx];
    // ops that call user code dominate
    p.ops = p
        .ops
        .into_iter()
        .map(|(n, w)| {
            (
                n,
                match n {
                    "push" => 14,
                    "change_priority" | "change_priority_by" | "remove" | "pop" | "pop_if" => 8,
                    "push_increase" | "push_decrease" => 4,
                    "retain" | "retain_mut" | "extend" | "append" | "from_iter" | "from_vec" | "iter_mut" => 4,
                    "clone" => 10,
                    "adaptor" | "eq" | "sorted" | "reserve" | "shrink_to_fit" | "get" | "get_mut" | "peek_mut" | "into_vec" | "iter" => 1,
                    _ => w.min(2),
                },
            )
        })
        .collect();
    let sweep = thorough;
    let kinds = proptest::sample::select(vec![Kind::PQ, Kind::DPQ]);
    let hashers = proptest::sample::select(p.hashers.to_vec());
    let small = (kinds, hashers, proptest::sample::select(vec![4u32, 12, 64]), 0u8..4)
        .prop_flat_map(move |(kind, hasher, u, dom)| {
            let op = gen::op_strategy(&p, kind, u, dom);
            let kk = if sweep { prop_oneof![3 => any::<u16>(), 1 => Just(u16::MAX)].boxed() } else { (0u16..u16::MAX).boxed() };
            // the fault kind is drawn to fit the operation (the runner falls back to a kind the
            // operation does call if this one never ticks)
            let faulty = (op.clone(), kk, any::<u8>()).prop_map(|(op, k, r)| {
                let pick = |v: &[FaultKind]| v[r as usize % v.len()];
                let kind = match &op {
                    Op::CloneReplace | Op::Snapshot | Op::RestoreFrom | Op::EqProbe | Op::Sorted { .. } | Op::Adapt { .. } => pick(&[FaultKind::CloneKey, FaultKind::ClonePrio, FaultKind::CloneKey, FaultKind::Cmp]),
                    Op::Extend { .. } | Op::RebuildFromIter { .. } | Op::RebuildFromVec { .. } | Op::Append { .. } => {
                        pick(&[FaultKind::Feed, FaultKind::Hash, FaultKind::Eq, FaultKind::Cmp, FaultKind::Cmp, FaultKind::Feed])
                    }
                    Op::Retain { .. } | Op::RetainMut { .. } | Op::PopIf { .. } | Op::ChangeBy { .. } => pick(&[FaultKind::Callback, FaultKind::Callback, FaultKind::Cmp, FaultKind::Hash]),
                    _ => pick(&[FaultKind::Cmp, FaultKind::Cmp, FaultKind::Cmp, FaultKind::Hash, FaultKind::Eq, FaultKind::Cmp, FaultKind::Callback]),
                };
                Op::WithFault { kind, k, op: Box::new(op) }
            });
            let step = prop_oneof![3 => op.clone(), 2 => faulty];
            (Just(kind), Just(hasher), Just(u), gen::ctor_strategy(&p, u, dom), vec(step, 1..p.max_ops))
        })
        .prop_map(|(kind, hasher, universe, ctor, ops)| Case { kind, hasher, universe, ctor, ops, faults: vec![], drain_every: 1, drain_bits: 0, pad: 0 });
    // big queues: every crash point of Ord::cmp inside one or two single-element operations whose sift path
    // runs the whole height of a heap of 65 536 ... 262 145 elements
    let big_op = prop_oneof![
        any::<u32>().prop_map(|tag| Op::Push { t: Target::Id(63), tag, p: PrioSpec::AboveMax(1) }),
        any::<u32>().prop_map(|tag| Op::Push { t: Target::Id(62), tag, p: PrioSpec::BelowMin(1) }),
        Just(Op::Change { t: Target::Slot(65535), p: PrioSpec::AboveMax(2), by_ref: true }),
        Just(Op::Change { t: Target::Pos(65535), p: PrioSpec::AboveMax(2), by_ref: true }),
        Just(Op::Change { t: Target::Pos(0), p: PrioSpec::BelowMin(2), by_ref: true }),
        Just(Op::Change { t: Target::Pos(1), p: PrioSpec::BelowMin(2), by_ref: true }),
        any::<u32>().prop_map(|tag| Op::PushInc { t: Target::Pos(65535), tag, p: PrioSpec::AboveMax(3) }),
        any::<u32>().prop_map(|tag| Op::PushDec { t: Target::Pos(0), tag, p: PrioSpec::BelowMin(3) }),
        Just(Op::Remove { t: Target::Pos(0), by_ref: true }),
        Just(Op::Remove { t: Target::Pos(3), by_ref: true }),
        Just(Op::Pop { end: End::Max }),
        Just(Op::Pop { end: End::Min }),
        Just(Op::ChangeBy { t: Target::Pos(65535), rw: Rewrite::AboveMax, by_ref: true }),
    ];
    let big = (
        proptest::sample::select(vec![Kind::PQ, Kind::DPQ]),
        proptest::sample::select(vec![65_536u32, 131_072, 131_073, 150_001, 262_145]),
        vec(big_op, 1..2),
    )
        .prop_map(|(kind, pad, ops)| Case {
            kind,
            hasher: HasherKind::Xx,
            universe: 64,
            ctor: Ctor { how: CtorKind::New, init: vec![(1, 0, 5), (2, 0, 6), (3, 0, 7)] },
            ops: ops.into_iter().map(|op| Op::WithFault { kind: FaultKind::Cmp, k: u16::MAX, op: Box::new(op) }).collect(),
            faults: vec![],
            drain_every: 255,
            drain_bits: 0,
            pad,
        });
    prop_oneof![6000 => small, 1 => big].boxed()
}

fn refresh<Q: Queue>(it: &mut Interp<Q>) {
    let mut m = Model::new();
    for (k, p) in it.q.iter() {
        m.set(k.id, k.tag, p.v);
    }
    it.model = m;
}

fn has_forgotten_drain(op: &Op) -> bool {
    match op {
        Op::IterProg { which: ItKind::Drain, end: EndHow::Forget, .. } => true,
        Op::WithFault { op, .. } => has_forgotten_drain(op),
        _ => false,
    }
}
fn has_forget(op: &Op) -> bool {
    match op {
        Op::IterProg { end: EndHow::Forget, .. } | Op::IterMut { end: EndHow::Forget, .. } => true,
        Op::WithFault { op, .. } => has_forget(op),
        _ => false,
    }
}

fn guarded_apply<Q: Queue>(it: &mut Interp<Q>, op: &Op) -> bool {
    it.opname = op.name();
    CUR_STEP.with(|c| c.set((it.step, it.opname)));
    let r = catch_unwind(AssertUnwindSafe(|| it.apply(op)));
    it.fails.clear();
    r.is_ok()
}

/// deterministic continuations most likely to expose a broken invariant, each on a clone
/// the same idea on a queue too big to empty again and again: the same calls, a few dozen each, around
/// both ends of the heap vector and of the slot order
fn battery_big<Q: Queue>(q: &Q, stats: &mut Stats) {
    stats.hit("battery_big");
    let _ = catch_unwind(AssertUnwindSafe(|| {
        let mut c = q.clone();
        for _ in 0..48 {
            if c.pop_max().is_none() {
                break;
            }
        }
        for _ in 0..24 {
            let _ = c.pop_min();
        }
        let _ = c.len();
    }));
    let mut c2 = q.clone();
    for rev in [false, true] {
        let _ = catch_unwind(AssertUnwindSafe(|| {
            let c = &mut c2;
            let mut ids: Vec<u32> = if rev { c.iter().rev().take(40).map(|(k, _)| k.id).collect() } else { c.iter().take(40).map(|(k, _)| k.id).collect() };
            ids.push(3_000_001);
            for id in ids {
                let _ = c.remove(&id);
            }
            let _ = c.pop_max();
        }));
    }
    let _ = catch_unwind(AssertUnwindSafe(|| {
        let c = &mut c2;
        c.push(Key::new(3_000_001, 0), Prio::new(i64::MAX));
        c.push(Key::new(3_000_002, 0), Prio::new(i64::MIN));
        let ids: Vec<u32> = c.iter().rev().take(30).chain(c.iter().take(10)).map(|(k, _)| k.id).collect();
        for (i, id) in ids.iter().enumerate() {
            let _ = c.change_priority(id, Prio::new(if i % 2 == 0 { i64::MAX - 5 - i as i64 } else { i64::MIN + 5 + i as i64 }));
        }
        for _ in 0..40 {
            let r = if Q::DOUBLE { c.pop_min() } else { c.pop_max() };
            if r.is_none() {
                break;
            }
        }
    }));
    let _ = catch_unwind(AssertUnwindSafe(|| {
        let c = &mut c2;
        c.retain(|k, _| k.id % 2 == 0);
        let _ = c.pop_max();
        let n = c.drain().count();
        let _ = n;
        c.push(Key::new(1, 0), Prio::new(1));
        let _ = c.pop_max();
    }));
}

fn battery<Q: Queue>(q: &Q, stats: &mut Stats) {
    if q.len() > 20_000 {
        return battery_big(q, stats);
    }
    stats.hit("battery");
    let guard = q.iter().count() + q.len() + 8;
    // A: pop everything
    let _ = catch_unwind(AssertUnwindSafe(|| {
        let mut c = q.clone();
        for _ in 0..guard {
            if c.pop_max().is_none() {
                break;
            }
        }
        let _ = c.len();
    }));
    // B: remove every id, newest first and oldest first
    for rev in [false, true] {
        let _ = catch_unwind(AssertUnwindSafe(|| {
            let mut c = q.clone();
            let mut ids: Vec<u32> = c.iter().map(|(k, _)| k.id).collect();
            if rev {
                ids.reverse();
            }
            for id in ids {
                let _ = c.remove(&id);
            }
        }));
    }
    // C: pushes and priority changes, then drain from the other end
    let _ = catch_unwind(AssertUnwindSafe(|| {
        let mut c = q.clone();
        c.push(Key::new(3_000_001, 0), Prio::new(i64::MAX));
        c.push(Key::new(3_000_002, 0), Prio::new(i64::MIN));
        let ids: Vec<u32> = c.iter().map(|(k, _)| k.id).collect();
        for (i, id) in ids.iter().enumerate() {
            let _ = c.change_priority(id, Prio::new(if i % 2 == 0 { 1000 + i as i64 } else { -(i as i64) }));
        }
        for _ in 0..guard + 4 {
            let r = if Q::DOUBLE { c.pop_min() } else { c.pop_max() };
            if r.is_none() {
                break;
            }
        }
    }));
    // D: bulk paths
    let _ = catch_unwind(AssertUnwindSafe(|| {
        let mut c = q.clone();
        c.retain(|k, _| k.id % 2 == 0);
        for (_, p) in c.iter_mut() {
            p.v = -p.v;
        }
        let _ = c.pop_max();
        let n = c.drain().count();
        let _ = n;
        c.push(Key::new(1, 0), Prio::new(1));
        let _ = c.pop_max();
    }));
    let _ = catch_unwind(AssertUnwindSafe(|| {
        let c = q.clone();
        let o = c.into_other();
        let mut b = o.into_other();
        let _ = b.pop_max();
        b.clear();
    }));
}

fn fault_run<Q: Queue>(case: &Case, stats: &mut Stats) -> Result<bool, Failure> {
    let cfg = RunCfg { prop: 10, hint_meta: false, tables: false, universe: case.universe.max(1), raw: true, strict_trace: false };
    set_tracking(true);
    let mut leaked_drain = false;
    let mut fired_big = false;
    let mut cont_after_fault = 0u32;
    let mut leaked_nonempty = false;
    {
        let r = catch_unwind(AssertUnwindSafe(|| Interp::<Q>::start(case, &cfg, false)));
        let Ok((mut it, _)) = r else {
            set_tracking(false);
            return Ok(false);
        };
        let mut any_fired = false;
        for (i, op) in case.ops.iter().enumerate() {
            it.step = i as i32;
            refresh(&mut it);
            if has_forgotten_drain(op) {
                leaked_drain = true;
            }
            if has_forget(op) && it.q.len() > 0 {
                leaked_nonempty = true;
            }
            match op {
                Op::WithFault { kind, k, op: inner } => {
                    // 1. count the callbacks of this kind on a clone
                    let size = it.q.len();
                    let ticks = {
                        let mut c = Interp {
                            q: it.q.clone(),
                            model: it.model.clone(),
                            case: it.case,
                            cfg: it.cfg,
                            stats: Stats::default(),
                            step: it.step,
                            opname: it.opname,
                            order_on: true,
                            fails: vec![],
                            removed: Default::default(),
                            disturbed: false,
                            after_special: false,
                            force_drain: false,
                            trace: None,
                            snapshot: None,
        pending_order_off: false,
                        };
                        start_tick_count();
                        let _ = guarded_apply(&mut c, inner);
                        stop_tick_count()
                    };
                    // the generated kind if the operation calls it at all, else the next kind (in a
                    // rotation derived from k) that it does call: (almost) every fault step fires
                    let mut kind = kind;
                    if ticks[*kind as usize] == 0 {
                        for j in 1..FAULT_KINDS.len() {
                            let cand = &FAULT_KINDS[(*kind as usize + j + (*k as usize % 3)) % FAULT_KINDS.len()];
                            if ticks[*cand as usize] > 0 {
                                kind = cand;
                                break;
                            }
                        }
                    }
                    let ticks = ticks[*kind as usize];
                    if ticks == 0 {
                        stats.hit("fault_no_callback_of_kind");
                        guarded_apply(&mut it, inner);
                        continue;
                    }
                    if *k == u16::MAX {
                        // exhaustive sweep of every crash point, each on a clone followed by the battery
                        stats.hit("fault_sweep");
                        for kk in 0..ticks.min(400) {
                            // on the big queues the crash points that small queues cannot have (the last
                            // seven levels of the sift path) are all visited, the others sampled
                            if it.case.pad > 0 && kk + 7 < ticks && kk % 5 != 0 {
                                continue;
                            }
                            let mut c = Interp {
                                q: it.q.clone(),
                                model: it.model.clone(),
                                case: it.case,
                                cfg: it.cfg,
                                stats: Stats::default(),
                                step: it.step,
                                opname: it.opname,
                                order_on: true,
                                fails: vec![],
                                removed: Default::default(),
                                disturbed: false,
                                after_special: false,
                                force_drain: false,
                                trace: None,
                                snapshot: None,
        pending_order_off: false,
                            };
                            arm_fuse(*kind, kk);
                            guarded_apply(&mut c, inner);
                            if disarm_fuse() {
                                stats.hit("fault_fired");
                                stats.hit("fault_sweep_point");
                                battery(&c.q, stats);
                                if size >= 3 {
                                    fired_big = true;
                                    cont_after_fault += 3;
                                }
                            }
                        }
                        guarded_apply(&mut it, inner);
                        continue;
                    }
                    let kk = ((*k as u64 * ticks as u64) >> 16) as u32;
                    arm_fuse(*kind, kk);
                    guarded_apply(&mut it, inner);
                    let fired = disarm_fuse();
                    if fired {
                        any_fired = true;
                        stats.hit("fault_fired");
                        stats.hit(match kind {
                            FaultKind::Cmp => "fault_cmp",
                            FaultKind::Hash => "fault_hash",
                            FaultKind::Eq => "fault_eq",
                            FaultKind::CloneKey => "fault_clone_key",
                            FaultKind::ClonePrio => "fault_clone_prio",
                            FaultKind::Callback => "fault_callback",
                            FaultKind::Feed => "fault_feed",
                        });
                        if size >= 3 {
                            fired_big = true;
                        }
                        let consistent = tables_consistent(&it.q.snapshot(), it.q.len()).is_ok();
                        if !consistent {
                            stats.hit("fault_left_inconsistent_tables");
                        }
                        battery(&it.q, stats);
                    } else {
                        stats.hit("fault_not_reached");
                    }
                }
                other => {
                    let ok = guarded_apply(&mut it, other);
                    if any_fired {
                        cont_after_fault += 1;
                        if !ok {
                            stats.hit("continuation_safe_panic");
                        }
                    }
                }
            }
            if it.q.len() > stats.max_size {
                stats.max_size = it.q.len();
            }
        }
        // final battery and drop
        battery(&it.q, stats);
        let _ = catch_unwind(AssertUnwindSafe(move || drop(it)));
    }
    let (live, dd) = tracking_report();
    let dead = dead_uses();
    set_tracking(false);
    let kind = Q::NAME;
    if dead > 0 {
        return Err(Failure {
            group: Group::Panic,
            clause: "dead_value_used",
            step: 0,
            op: "history",
            detail: format!("user callbacks (cmp/hash/eq) were handed {} item/priority values whose instance had already been dropped (stale memory read)", dead),
            kind,
        });
    }
    if dd > 0 {
        return Err(Failure { group: Group::Panic, clause: "double_drop", step: 0, op: "history", detail: format!("{} item/priority instances were dropped twice", dd), kind });
    }
    if live > 0 && !leaked_drain {
        return Err(Failure {
            group: Group::Panic,
            clause: "leak",
            step: 0,
            op: "history",
            detail: format!("{} item/priority instances were never dropped although no draining iterator was leaked", live),
            kind,
        });
    }
    Ok((fired_big && cont_after_fault >= 3) || leaked_nonempty)
}

pub fn fault_verdict(case: &Case, stats: &mut Stats) -> SVerdict {
    disarm_fuse();
    let r = catch_unwind(AssertUnwindSafe(|| match (case.kind, case.hasher) {
        #[cfg(feature = "std")]
        (Kind::PQ, HasherKind::Random) => fault_run::<PqRs>(case, stats),
        #[cfg(feature = "std")]
        (Kind::DPQ, HasherKind::Random) => fault_run::<DpqRs>(case, stats),
        (Kind::PQ, _) => fault_run::<PqHb>(case, stats),
        (Kind::DPQ, _) => fault_run::<DpqHb>(case, stats),
    }));
    disarm_fuse();
    set_tracking(false);
    match r {
        Ok(Ok(nt)) => SVerdict::Pass(nt),
        Ok(Err(f)) => SVerdict::Fail(f),
        Err(_) => {
            // a safe panic of the crate (or of indexmap on a map left inconsistent by a fault) outside
            // a guarded call is tolerated; only the harness's own panics are bugs
            let (msg, loc) = last_panic();
            if is_harness_location(&loc) && msg != FUSE_MSG {
                SVerdict::HarnessBug(format!("{} @ {}", msg, loc))
            } else {
                stats.hit("unguarded_safe_panic");
                SVerdict::Pass(false)
            }
        }
    }
}

pub fn run_c10(a: &WorkerArgs) -> WorkerReport {
    run_special(a, fault_case_strategy(a.thorough), fault_verdict, |c: &Case| c.hash64(), |c: &Case| c.ctor.init.len())
}

pub fn replay_c10(text: &str) -> Result<Option<Failure>, String> {
    let c: Case = serde_json::from_str(text).map_err(|e| format!("cannot parse case: {}", e))?;
    let mut st = Stats::default();
    match fault_verdict(&c, &mut st) {
        SVerdict::Pass(_) => Ok(None),
        SVerdict::Fail(f) => Ok(Some(f)),
        SVerdict::HarnessBug(m) => Err(m),
    }
}
